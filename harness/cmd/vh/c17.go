package main

// C17 — deepcopy output compiles and copies without sharing containers.

import (
	"fmt"
	"go/ast"
	"go/parser"
	"go/token"
	"slices"
	"sort"
	"strings"
)

type DDecl struct {
	Under   string   `json:"under"`             // s struct · m defined map · c defined scalar · i defined interface
	Enabled bool     `json:"enabled"`           // tagged +gengo:deepcopy
	Generic bool     `json:"generic,omitempty"` // type T[P any] struct
	Fields  []string `json:"fields,omitempty"`  // p int · s []int · m map[string]int · e error · a any · f interface{ M() } · L<id> · I<id> (instantiation) · P (type parameter)
	Iface   bool     `json:"iface,omitempty"`   // +gengo:deepcopy:interfaces=example.com/m/rt.Object
}

type dcopyCase struct {
	Decls []DDecl `json:"decls"`
	res   *dcopyRes
}

type dcopyRes struct {
	obs     [2]string // per run: what was generated (emit/stmts) or the failure
	build   [2]string // per run: "" ok, else compiler output
	same    bool
	probe   []string // verdict lines of the executed check for this package
	probeOK bool     // the probe ran for this package
}

func dGoType(tok string) string {
	switch tok[0] {
	case 'p':
		return "int"
	case 's':
		return "[]int"
	case 'm':
		return "map[string]int"
	case 'e':
		return "error"
	case 'a':
		return "any"
	case 'f':
		return "interface{ M() }"
	case 'o':
		return "rt.Object"
	case 'L':
		return "T" + tok[1:]
	case 'I':
		if j, k, ok := strings.Cut(tok[1:], "x"); ok {
			return "T" + j + "[T" + k + "]" // instantiated with a defined type of the package
		}
		return "T" + tok[1:] + "[int]"
	case 'P':
		return "P"
	}
	return "?"
}

func (c *dcopyCase) source(pkg string) string {
	var b strings.Builder
	fmt.Fprintf(&b, "package %s\n\n", pkg)
	for _, d := range c.Decls {
		if d.Under == "s" && slices.Contains(d.Fields, "o") {
			// a field of the interface type that objects copy themselves through
			fmt.Fprintf(&b, "import %q\n\n", genMod+"/rt")
			break
		}
	}
	for i, d := range c.Decls {
		if d.Enabled {
			b.WriteString("// +gengo:deepcopy\n")
		}
		if d.Iface && d.Under == "s" && !d.Generic {
			b.WriteString("// +gengo:deepcopy:interfaces=" + genMod + "/rt.Object\n")
		}
		tp := ""
		if d.Generic {
			tp = "[P any]"
		}
		switch d.Under {
		case "s":
			fmt.Fprintf(&b, "type T%d%s struct {\n", i, tp)
			for j, f := range d.Fields {
				if f == "b" {
					b.WriteString("\t_ int\n") // a blank field: part of the struct, but nothing can refer to it
					continue
				}
				fmt.Fprintf(&b, "\tF%d %s\n", j, dGoType(f))
			}
			b.WriteString("}\n\n")
		case "m":
			fmt.Fprintf(&b, "type T%d map[string]int\n\n", i)
		case "i":
			fmt.Fprintf(&b, "type T%d interface{ M() }\n\n", i)
		default:
			fmt.Fprintf(&b, "type T%d int64\n\n", i)
		}
	}
	return b.String()
}

// modelDecls: the package in the model's vocabulary.  An interface declaration emits nothing and a field
// of such a type is copied by assignment (repaired code), which is what a disabled scalar declaration and
// a `plain` field are for the model; unnamed interfaces and bare type parameters are `plain` as well.
func (c *dcopyCase) modelDecls() string {
	var enc []string
	for _, d := range c.Decls {
		if d.Under == "i" {
			enc = append(enc, "c:0:0:-")
			continue
		}
		var fs []string
		for _, f := range d.Fields {
			switch f[0] {
			case 'b':
				// no statement can be emitted for a blank field: for the model it is not there
			case 'a', 'f', 'P', 'o':
				fs = append(fs, "p")
			case 'L':
				var id int
				fmt.Sscan(f[1:], &id)
				if id < len(c.Decls) && c.Decls[id].Under == "i" {
					fs = append(fs, "p")
				} else {
					fs = append(fs, f)
				}
			case 'I':
				// the generator goes by the generic type's own declaration: the type argument plays no part
				j, _, _ := strings.Cut(f, "x")
				fs = append(fs, j)
			default:
				fs = append(fs, f)
			}
		}
		fe := strings.Join(fs, ",")
		if fe == "" {
			fe = "-"
		}
		enc = append(enc, fmt.Sprintf("%s:%s:%s:%s", d.Under, b01(d.on()), b01(d.Generic), fe))
	}
	return strings.Join(enc, " ")
}

// effective enablement: the interfaces tag is a `gengo:deepcopy:<sub>` tag and enables by itself (C06)
func (d DDecl) on() bool { return d.Enabled || (d.Iface && d.Under == "s" && !d.Generic) }

func (c *dcopyCase) srcKey() string {
	var enc []string
	for _, d := range c.Decls {
		enc = append(enc, fmt.Sprintf("%s:%s:%s:%s:%s", d.Under, b01(d.Enabled), b01(d.Generic), b01(d.Iface), strings.Join(d.Fields, ",")))
	}
	return strings.Join(enc, " ")
}

func (c *dcopyCase) Line() string { return "dcopy2 " + c.modelDecls() }

func recvTypeName(fd *ast.FuncDecl) string {
	t := fd.Recv.List[0].Type
	if s, ok := t.(*ast.StarExpr); ok {
		t = s.X
	}
	if ix, ok := t.(*ast.IndexExpr); ok {
		t = ix.X
	}
	if id, ok := t.(*ast.Ident); ok {
		return id.Name
	}
	return "?"
}

func classifyCopyStmt(fset *token.FileSet, src []byte, st ast.Stmt, fieldType map[string]string) string {
	str := func(n ast.Node) string {
		return string(src[fset.Position(n.Pos()).Offset:fset.Position(n.End()).Offset])
	}
	s := str(st)
	typeID := func(field string) string { return strings.TrimPrefix(strings.SplitN(fieldType[field], "[", 2)[0], "T") }
	switch x := st.(type) {
	case *ast.IfStmt:
		if strings.Contains(s, "range") {
			return "map"
		}
		return "slice"
	case *ast.ExprStmt:
		f := strings.TrimPrefix(strings.SplitN(s, ".DeepCopyInto", 2)[0], "in.")
		return "into" + typeID(f)
	case *ast.AssignStmt:
		f := strings.TrimPrefix(str(x.Lhs[0]), "out.")
		rhs := str(x.Rhs[0])
		if strings.HasSuffix(rhs, ".DeepCopy()") {
			if strings.HasPrefix(rhs, "*") {
				return "deref" + typeID(f)
			}
			return "copy" + typeID(f)
		}
		return "assign"
	}
	return "?" + s
}

// observe: the emitted DeepCopy methods in order (duplicates included) and, per struct, the kind of
// statement emitted for every field.
func (c *dcopyCase) observe(src string) string {
	if src == "" {
		return "emit= stmts="
	}
	fset := token.NewFileSet()
	f, err := parser.ParseFile(fset, "x.go", src, 0)
	if err != nil {
		return "unparseable"
	}
	var emit, stmts []string
	for _, d := range f.Decls {
		fd, ok := d.(*ast.FuncDecl)
		if !ok || fd.Recv == nil {
			continue
		}
		id := strings.TrimPrefix(recvTypeName(fd), "T")
		if fd.Name.Name == "DeepCopy" {
			emit = append(emit, id)
		}
		if fd.Name.Name == "DeepCopyInto" {
			var idx int
			fmt.Sscan(id, &idx)
			if idx >= len(c.Decls) || c.Decls[idx].Under != "s" {
				stmts = append(stmts, "-")
				continue
			}
			ft := map[string]string{}
			for i, tok := range c.Decls[idx].Fields {
				ft[fmt.Sprintf("F%d", i)] = dGoType(tok)
			}
			var cs []string
			for _, st := range fd.Body.List {
				cs = append(cs, classifyCopyStmt(fset, []byte(src), st, ft))
			}
			stmts = append(stmts, strings.Join(cs, ","))
		}
	}
	return "emit=" + strings.Join(emit, ",") + " stmts=" + strings.Join(stmts, ";")
}

const dcopyProbeCommon = `package main

import (
	"errors"
	"fmt"
	"reflect"
	"strings"

	"example.com/m/rt"
)

var _ = strings.Join

var theErr = errors.New("e")

// objImpl: what a field of type rt.Object holds — a pointer, nil while the containers are empty (a typed nil pointer in
// a non-nil interface value); like the generated DeepCopyObject, its own gives a nil interface value for a nil receiver
type objImpl struct{ N int }

func (o *objImpl) DeepCopyObject() rt.Object {
	if o == nil {
		return nil
	}
	c := *o
	return &c
}

type impl struct{}

func (impl) M() {}

// sparse: containers are allocated but hold nothing
var sparse bool

func fill(v reflect.Value, c *int) {
	*c++
	switch v.Kind() {
	case reflect.Struct:
		for i := 0; i < v.NumField(); i++ {
			if v.Field(i).CanSet() { // not a blank field
				fill(v.Field(i), c)
			}
		}
	case reflect.Slice:
		if sparse { // allocated but empty
			v.Set(reflect.MakeSlice(v.Type(), 0, 4))
			return
		}
		s := reflect.MakeSlice(v.Type(), 2, 4)
		s.Index(0).SetInt(int64(*c))
		s.Index(1).SetInt(int64(*c + 1))
		v.Set(s)
	case reflect.Map:
		m := reflect.MakeMap(v.Type())
		if !sparse {
			m.SetMapIndex(reflect.ValueOf("k"), reflect.ValueOf(*c))
		}
		v.Set(m)
	case reflect.Int, reflect.Int64:
		v.SetInt(int64(*c))
	case reflect.Interface:
		switch {
		case reflect.TypeOf(theErr).Implements(v.Type()):
			v.Set(reflect.ValueOf(theErr))
		case reflect.TypeOf(impl{}).Implements(v.Type()):
			v.Set(reflect.ValueOf(impl{}))
		case reflect.TypeOf((*objImpl)(nil)).Implements(v.Type()):
			if sparse {
				v.Set(reflect.ValueOf((*objImpl)(nil)))
			} else {
				v.Set(reflect.ValueOf(&objImpl{N: *c}))
			}
		}
	}
}

func mutate(v reflect.Value) (n int) {
	switch v.Kind() {
	case reflect.Struct:
		for i := 0; i < v.NumField(); i++ {
			n += mutate(v.Field(i))
		}
	case reflect.Slice:
		if v.Len() > 0 {
			v.Index(0).SetInt(v.Index(0).Int() + 1000)
			v.Set(reflect.Append(v, reflect.ValueOf(7))) // within capacity: writes into a shared backing array if there is one
			n++
		}
	case reflect.Map:
		if !v.IsNil() {
			v.SetMapIndex(reflect.ValueOf("k"), reflect.ValueOf(1000))
			v.SetMapIndex(reflect.ValueOf("new"), reflect.ValueOf(1))
			n++
		}
	}
	return n
}

// diffPaths: the fields (by path from the root) in which the original no longer equals its untouched twin
func diffPaths(a, b reflect.Value, path string, out *[]string) {
	if a.Kind() == reflect.Struct {
		for i := 0; i < a.NumField(); i++ {
			diffPaths(a.Field(i), b.Field(i), path+"."+a.Type().Field(i).Name, out)
		}
		return
	}
	if a.CanInterface() && !reflect.DeepEqual(a.Interface(), b.Interface()) {
		*out = append(*out, path)
	}
}

func check(name string, ptr any) {
	sparse = true
	checkOnce(name, ptr, true)
	sparse = false
	checkOnce(name, ptr, false)
}

func checkOnce(name string, ptr any, quiet bool) {
	defer func() {
		if e := recover(); e != nil {
			fmt.Println("V", name, "PANIC", e)
		}
	}()
	t := reflect.TypeOf(ptr).Elem()
	orig, twin := reflect.New(t), reflect.New(t)
	c1, c2 := 0, 0
	fill(orig.Elem(), &c1)
	fill(twin.Elem(), &c2)
	m := orig.MethodByName("DeepCopy")
	if !m.IsValid() {
		fmt.Println("V", name, "NO-DEEPCOPY-METHOD")
		return
	}
	cp := m.Call(nil)[0]
	if !reflect.DeepEqual(cp.Interface(), orig.Interface()) {
		fmt.Println("V", name, "NOT-EQUAL")
		return
	}
	n := 0
	if cp.Kind() == reflect.Ptr {
		n = mutate(cp.Elem())
	} else {
		tmp := reflect.New(cp.Type()).Elem()
		tmp.Set(cp)
		n = mutate(tmp)
	}
	if !reflect.DeepEqual(orig.Interface(), twin.Interface()) {
		var paths []string
		diffPaths(orig.Elem(), twin.Elem(), "", &paths)
		fmt.Println("V", name, "SHARED", strings.Join(paths, ","))
	}
	if t.Kind() == reflect.Struct {
		nilp := reflect.Zero(reflect.PointerTo(t))
		if r := nilp.MethodByName("DeepCopy").Call(nil)[0]; !r.IsNil() {
			fmt.Println("V", name, "NIL-NOT-NIL")
		}
		// types carrying the interfaces tag also have DeepCopyObject: of nil it is a nil interface value, not an interface
		// holding a nil pointer
		if m := nilp.MethodByName("DeepCopyObject"); m.IsValid() {
			if r := m.Call(nil)[0]; !r.IsNil() {
				fmt.Println("V", name, "NIL-OBJECT-NOT-NIL")
			}
			if r := orig.MethodByName("DeepCopyObject").Call(nil)[0]; r.IsNil() || !reflect.DeepEqual(r.Elem().Interface(), orig.Interface()) {
				fmt.Println("V", name, "OBJECT-NOT-EQUAL")
			}
		}
		z := reflect.New(t)
		zc := z.MethodByName("DeepCopy").Call(nil)[0]
		if !reflect.DeepEqual(zc.Interface(), z.Interface()) {
			fmt.Println("V", name, "ZERO-NOT-EQUAL")
		}
	}
	if !quiet {
		fmt.Println("OK", name, n)
	}
}

var probes []func()

func main() {
	for _, p := range probes {
		p()
	}
}
`

func (c *dcopyCase) probe(pkg string) string {
	var b strings.Builder
	fmt.Fprintf(&b, "package main\n\nimport %s %q\n\nfunc init() {\n\tprobes = append(probes, func() {\n", pkg, genMod+"/"+pkg)
	n := 0
	for i, d := range c.Decls {
		if !d.on() {
			continue
		}
		switch d.Under {
		case "s":
			targ := ""
			if d.Generic {
				targ = "[int]"
			}
			fmt.Fprintf(&b, "\t\tcheck(%q, new(%s.T%d%s))\n", fmt.Sprintf("%s.T%d", pkg, i), pkg, i, targ)
			n++
		case "m":
			fmt.Fprintf(&b, "\t\tcheckMap(%q, %s.T%d{\"k\": 1})\n", fmt.Sprintf("%s.T%d", pkg, i), pkg, i)
			n++
		}
	}
	if n == 0 {
		fmt.Fprintf(&b, "\t\t_ = %s.T0(nil)\n", pkg)
		// keep the import used whatever T0 is
		b.Reset()
		fmt.Fprintf(&b, "package main\n\nimport _ %q\n", genMod+"/"+pkg)
		return b.String()
	}
	b.WriteString("\t})\n}\n")
	return b.String()
}

const dcopyProbeMap = `
func checkMap(name string, m any) {
	defer func() {
		if e := recover(); e != nil {
			fmt.Println("V", name, "PANIC", e)
		}
	}()
	v := reflect.ValueOf(m)
	meth := v.MethodByName("DeepCopy")
	if !meth.IsValid() {
		fmt.Println("V", name, "NO-DEEPCOPY-METHOD")
		return
	}
	cp := meth.Call(nil)[0]
	if !reflect.DeepEqual(cp.Interface(), m) {
		fmt.Println("V", name, "NOT-EQUAL")
		return
	}
	cp.SetMapIndex(reflect.ValueOf("k"), reflect.ValueOf(1000))
	if v.MapIndex(reflect.ValueOf("k")).Int() != 1 {
		fmt.Println("V", name, "SHARED")
	}
	// allocated but empty
	em := reflect.MakeMap(v.Type())
	ecp := em.MethodByName("DeepCopy").Call(nil)[0]
	if ecp.IsNil() || ecp.Len() != 0 {
		fmt.Println("V", name, "NOT-EQUAL")
	} else {
		ecp.SetMapIndex(reflect.ValueOf("k"), reflect.ValueOf(1))
		if em.Len() != 0 {
			fmt.Println("V", name, "SHARED")
		}
	}
	if r := reflect.Zero(v.Type()).MethodByName("DeepCopy").Call(nil)[0]; !r.IsNil() {
		fmt.Println("V", name, "NIL-NOT-NIL")
	}
	fmt.Println("OK", name, 1)
}
`

const dcopyRtPkg = "package rt\n\ntype Object interface {\n\tDeepCopyObject() Object\n}\n"

// morphed: the package as it looked before an edit — one type that others hold by value was of another kind (a struct
// was a defined map, a defined map or an interface a struct).  The process generates for that version first (a run
// whose output is thrown away), then the sources become the real ones: what was learnt about a type under its old
// declaration must not decide how the new one is copied.
func (c *dcopyCase) morphed(pkg string) (string, bool) {
	used := map[int]bool{}
	for _, d := range c.Decls {
		for _, f := range d.Fields {
			if f[0] == 'L' {
				var id int
				fmt.Sscan(f[1:], &id)
				used[id] = true
			}
		}
	}
	for i, d := range c.Decls {
		if !used[i] || d.Generic {
			continue
		}
		n := &dcopyCase{Decls: append([]DDecl{}, c.Decls...)}
		switch d.Under {
		case "s":
			n.Decls[i].Under, n.Decls[i].Fields, n.Decls[i].Iface = "m", nil, false
		case "m", "i":
			n.Decls[i].Under, n.Decls[i].Fields = "s", []string{"p"}
		default:
			continue
		}
		return n.source(pkg), true
	}
	return "", false
}

func dcopyJob(cases []*dcopyCase) *genJob {
	// three runs in one process: a first one over the packages as they looked before an edit (its output is deleted),
	// then two over the real sources — those two are what is compared and judged
	job := &genJob{Files: map[string]string{"rt/rt.go": dcopyRtPkg}, Gens: []string{"deepcopy"}, Runs: 3, ProbeCommon: dcopyProbeCommon + dcopyProbeMap, Probes: map[string]string{}}
	job.Edits = []map[string]string{{}}
	if len(cases)%2 == 1 {
		// a module written for an older language version (every other batch): what is generated for it has to compile there
		job.GoVer = "1.20"
	}
	for i, c := range cases {
		pkg := fmt.Sprintf("p%d", i)
		job.Files[pkg+"/a.go"] = c.source(pkg)
		if i%7 == 3 {
			// the package has names of its own for what newer language versions predeclare
			job.Files[pkg+"/names.go"] = "package " + pkg + "\n\nvar clear, min, max = 1, 2, 3\n\nvar _ = clear + min + max\n"
		}
		job.Edits[0][pkg+"/"+pipeBase+".deepcopy.go"] = "\x00delete"
		if m, ok := c.morphed(pkg); ok {
			job.Edits[0][pkg+"/a.go"] = job.Files[pkg+"/a.go"]
			job.Files[pkg+"/a.go"] = m
		}
		job.Entry = append(job.Entry, "./"+pkg)
		job.Probes[pkg] = c.probe(pkg)
	}
	return job
}

func (c *dcopyCase) fill(out *genRunOut, i int) {
	pkg := fmt.Sprintf("p%d", i)
	r := &dcopyRes{}
	off := 0 // the first of the two judged runs (a run over the earlier version of the sources comes before them)
	if len(out.ExecErr) == 3 {
		off = 1
	}
	for run := 0; run < 2; run++ {
		if run+off >= len(out.ExecErr) {
			r.obs[run] = "not-run"
			continue
		}
		if e := out.ExecErr[run+off]; e != "" {
			if strings.HasPrefix(e, "panic") {
				r.obs[run] = "panic"
			} else {
				r.obs[run] = "err " + e
			}
			continue
		}
		r.obs[run] = c.observe(out.Generated[run+off][pkg+"/"+pipeBase+".deepcopy.go"])
		r.build[run] = out.BuildFail[run+off][pkg]
	}
	if len(out.Generated) == 2+off {
		r.same = out.Generated[off][pkg+"/"+pipeBase+".deepcopy.go"] == out.Generated[off+1][pkg+"/"+pipeBase+".deepcopy.go"]
	}
	for _, l := range strings.Split(out.ProbeOut, "\n") {
		f := strings.Fields(l)
		if len(f) >= 3 && strings.HasPrefix(f[1], pkg+".") {
			if f[0] == "V" {
				r.probe = append(r.probe, strings.Join(f[1:], " "))
			}
			r.probeOK = true
		}
	}
	if out.ProbeErr != "" {
		r.probeOK = false
	}
	c.res = r
}

func (c *dcopyCase) canon() string {
	r := c.res
	b := func(s string) string {
		if s == "" {
			return "ok"
		}
		return "fail"
	}
	if r.obs[0] == "panic" || strings.HasPrefix(r.obs[0], "err ") {
		return r.obs[0]
	}
	return "run1 " + r.obs[0] + " build=" + b(r.build[0]) + " run2 " + r.obs[1] + " build=" + b(r.build[1])
}

func (c *dcopyCase) Run() string {
	if c.res == nil {
		out := runGenJob(dcopyJob([]*dcopyCase{c}))
		c.fill(out, 0)
	}
	return c.canon()
}

func (c *dcopyCase) Oracle(out string) string {
	r := c.res
	if r.obs[0] == "panic" {
		return "the deepcopy generator panicked"
	}
	if strings.HasPrefix(r.obs[0], "err ") {
		return "the deepcopy generator failed: " + r.obs[0]
	}
	if r.build[0] != "" {
		return "the package does not compile with the generated code (first run): " + clip(r.build[0], 400)
	}
	if r.build[1] != "" {
		return "the package does not compile with the generated code of the second run: " + clip(r.build[1], 400)
	}
	if !r.same {
		return "the generated file differs between the first and the second run"
	}
	if len(r.probe) > 0 {
		if c.onlyThroughTypeParam() {
			return "executed check of the generated DeepCopy: " + strings.Join(r.probe, "; ") + " — " + dcopyTypeParamClass
		}
		return "executed check of the generated DeepCopy: " + strings.Join(r.probe, "; ")
	}
	return ""
}

const dcopyTypeParamClass = "the copy shares a slice or map with its original only below a bare type-parameter field of a generic struct (copied by assignment whatever it is instantiated with)"

// onlyThroughTypeParam: every verdict of the executed check is SHARED, and every shared container lies below a field
// whose declared type is a bare type parameter
func (c *dcopyCase) onlyThroughTypeParam() bool {
	r := c.res
	if r == nil || len(r.probe) == 0 {
		return false
	}
	for _, l := range r.probe {
		f := strings.Fields(l) // <pkg>.T<i> SHARED <paths>
		if len(f) != 3 || f[1] != "SHARED" {
			return false
		}
		var root int
		if _, err := fmt.Sscanf(f[0][strings.LastIndex(f[0], ".")+1:], "T%d", &root); err != nil {
			return false
		}
		for _, path := range strings.Split(f[2], ",") {
			if !c.pathThroughTypeParam(root, path) {
				return false
			}
		}
	}
	return true
}

func (c *dcopyCase) pathThroughTypeParam(root int, path string) bool {
	cur := root
	for _, seg := range strings.Split(strings.TrimPrefix(path, "."), ".") {
		var j int
		if _, err := fmt.Sscanf(seg, "F%d", &j); err != nil || cur >= len(c.Decls) || c.Decls[cur].Under != "s" || j >= len(c.Decls[cur].Fields) {
			return false
		}
		tok := c.Decls[cur].Fields[j]
		switch tok[0] {
		case 'P':
			return true
		case 'L', 'I':
			g, _, _ := strings.Cut(tok[1:], "x")
			if _, err := fmt.Sscan(g, &cur); err != nil {
				return false
			}
		default:
			return false
		}
	}
	return false
}

func (c *dcopyCase) Shrinks() []Case {
	var out []Case
	// drop the last declaration when nothing refers to it
	if n := len(c.Decls); n > 1 {
		used := false
		for _, d := range c.Decls {
			for _, f := range d.Fields {
				if f == fmt.Sprintf("L%d", n-1) || f == fmt.Sprintf("I%d", n-1) || strings.HasPrefix(f, fmt.Sprintf("I%dx", n-1)) || (f[0] == 'I' && strings.HasSuffix(f, fmt.Sprintf("x%d", n-1))) {
					used = true
				}
			}
		}
		if !used {
			out = append(out, &dcopyCase{Decls: append([]DDecl{}, c.Decls[:n-1]...)})
		}
	}
	for i, d := range c.Decls {
		for j := range d.Fields {
			if len(d.Fields) > 1 {
				n := append([]DDecl{}, c.Decls...)
				n[i].Fields = append(append([]string{}, d.Fields[:j]...), d.Fields[j+1:]...)
				out = append(out, &dcopyCase{Decls: n})
			}
		}
		for j, f := range d.Fields {
			if f != "p" {
				n := append([]DDecl{}, c.Decls...)
				n[i].Fields = append([]string{}, d.Fields...)
				n[i].Fields[j] = "p"
				out = append(out, &dcopyCase{Decls: n})
			}
			if g, _, ok := strings.Cut(f, "x"); ok && f[0] == 'I' {
				n := append([]DDecl{}, c.Decls...)
				n[i].Fields = append([]string{}, d.Fields...)
				n[i].Fields[j] = g // instantiated with int instead
				out = append(out, &dcopyCase{Decls: n})
			}
		}
		if d.Iface {
			n := append([]DDecl{}, c.Decls...)
			n[i].Iface = false
			out = append(out, &dcopyCase{Decls: n})
		}
	}
	return out
}

func (c *dcopyCase) Key() string {
	if c.onlyThroughTypeParam() && c.res.build[0] == "" && c.res.build[1] == "" && c.res.same {
		return "class: " + dcopyTypeParamClass
	}
	return c.srcKey()
}
func (c *dcopyCase) Classes() []string {
	m := map[string]bool{}
	for _, d := range c.Decls {
		m["under:"+d.Under] = true
		if d.Generic {
			m["generic-struct"] = true
		}
		if d.Iface {
			m["interfaces-tag"] = true
		}
		for _, f := range d.Fields {
			m["field:"+f[:1]] = true
			if _, k, ok := strings.Cut(f, "x"); ok && f[0] == 'I' {
				var id int
				fmt.Sscan(k, &id)
				if id < len(c.Decls) {
					m["type-argument:defined-"+map[string]string{"c": "scalar", "m": "map", "s": "struct"}[c.Decls[id].Under]] = true
				}
			}
			if (f[0] == 'L' || f[0] == 'I') && len(f) > 1 {
				var id int
				fmt.Sscan(f[1:], &id)
				if id < len(c.Decls) && !c.Decls[id].on() {
					m["untagged-dependency"] = true
				}
			}
		}
	}
	if c.res != nil {
		if c.res.probeOK {
			m["executed-check:ran"] = true
		} else {
			m["executed-check:not-run"] = true
		}
	}
	var cl []string
	for k := range m {
		cl = append(cl, k)
	}
	sort.Strings(cl)
	return cl
}
func (c *dcopyCase) Nontrivial() bool { return len(c.Decls) > 1 }

func genDcopy(r *Rng) *dcopyCase {
	k := 2 + r.Intn(6)
	decls := make([]DDecl, k)
	withErr := r.Chance(25)
	withIface := r.Chance(15)
	for i := range decls {
		d := &decls[i]
		d.Under = Pick(r, []string{"s", "s", "s", "s", "m", "c"})
		if withIface && r.Chance(25) {
			d.Under = "i"
		}
		d.Enabled = r.Chance(75)
		if d.Under == "s" {
			d.Generic = r.Chance(20)
			d.Iface = r.Chance(10)
			n := 1 + r.Intn(4)
			for j := 0; j < n; j++ {
				choice := r.Intn(9)
				switch {
				case choice == 0 && withErr:
					d.Fields = append(d.Fields, "e")
				case choice == 6 && d.Generic:
					d.Fields = append(d.Fields, "P")
				case choice == 7:
					d.Fields = append(d.Fields, Pick(r, []string{"a", "f", "o"}))
				case choice == 1 && r.Chance(20):
					d.Fields = append(d.Fields, "b")
				case choice <= 1:
					d.Fields = append(d.Fields, "p")
				case choice == 2:
					d.Fields = append(d.Fields, "s")
				case choice == 3:
					d.Fields = append(d.Fields, "m")
				default:
					if i == 0 {
						d.Fields = append(d.Fields, "s")
					} else {
						j := r.Intn(i)
						if decls[j].Generic {
							tok := fmt.Sprintf("I%d", j)
							// instantiated with a defined type of the package (a scalar, a map or a plain struct) instead of int
							if r.Chance(50) {
								var args []int
								for k := 0; k < i; k++ {
									if decls[k].Under == "c" || decls[k].Under == "m" || (decls[k].Under == "s" && !decls[k].Generic) {
										args = append(args, k)
									}
								}
								if len(args) > 0 {
									tok = fmt.Sprintf("I%dx%d", j, Pick(r, args))
								}
							}
							d.Fields = append(d.Fields, tok)
						} else {
							d.Fields = append(d.Fields, fmt.Sprintf("L%d", j))
						}
					}
				}
			}
		}
	}
	return &dcopyCase{Decls: decls}
}

func dcopyBatch(cases []Case) []string {
	res := make([]string, len(cases))
	const chunk = 100
	type shard struct{ s, e int }
	var shards []shard
	for s := 0; s < len(cases); s += chunk {
		shards = append(shards, shard{s, min(s+chunk, len(cases))})
	}
	var jobs []*genJob
	for _, sh := range shards {
		var cs []*dcopyCase
		for _, c := range cases[sh.s:sh.e] {
			cs = append(cs, c.(*dcopyCase))
		}
		jobs = append(jobs, dcopyJob(cs))
	}
	outs := runGenJobs(jobs, 6)
	for k, sh := range shards {
		out := outs[k]
		failed := out.Harness != "" || (len(out.ExecErr) > 0 && out.ExecErr[0] != "")
		if failed {
			// one package made the whole run fail or panic: every package on its own
			var single []*genJob
			for _, c := range cases[sh.s:sh.e] {
				single = append(single, dcopyJob([]*dcopyCase{c.(*dcopyCase)}))
			}
			so := runGenJobs(single, 12)
			for i, c := range cases[sh.s:sh.e] {
				c.(*dcopyCase).fill(so[i], 0)
			}
		} else {
			for i, c := range cases[sh.s:sh.e] {
				c.(*dcopyCase).fill(out, i)
			}
		}
		for i, c := range cases[sh.s:sh.e] {
			res[sh.s+i] = c.(*dcopyCase).canon()
		}
	}
	return res
}

func init() {
	register(&Property{ID: "C17", Streams: []*Stream{
		{
			Name: "graphs", Quick: 500, Thorough: 4000, New: func() Case { return &dcopyCase{} },
			Gen:      func(r *Rng, i int) Case { return genDcopy(r) },
			BatchRun: dcopyBatch, ShrinkBudget: 25, MaxShrinks: 6,
			Rule: "packages of 2–7 declarations: structs with int, blank (`_ int`), []int, map[string]int, error, any, unnamed-interface, same-package named (struct / defined map / defined scalar / defined interface) and instantiated-generic fields, generic structs with bare type-parameter fields, defined maps and scalars, tagged and untagged dependencies, the gengo:deepcopy:interfaces tag; the real generator run three times in one process (100 packages per Execute) — first over an earlier version of the sources in which one type that others hold by value is of another kind (a struct was a defined map, a map or an interface a struct), whose output is deleted, then twice over the real sources —, the Go compiler after each run, and one probe program per batch that fills every enabled type twice — with allocated but empty containers, then with non-empty ones — at every depth, calls the generated DeepCopy, requires reflect.DeepEqual (also of DeepCopyObject where the interfaces tag gives one, whose result for a nil receiver must be a nil interface value), mutates every slice and map reachable in the copy and compares the original with an identically filled twin; compared with the model: emitted methods in order, statement form per field, compiles or not, on both runs; oracle: compiles on both runs, identical output, nil receiver gives nil, equal, nothing shared",
		},
	}})
}
