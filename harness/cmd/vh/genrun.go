package main

// Generate-build-run jobs for the sample generators (C16, C17, C18) and for C01: a synthetic
// module is written to a temp dir, the real registered generators are run on it through
// NewContext/Execute (in a child process: Execute needs the working directory), the packages are
// built with the Go compiler, and a probe program linked against the generated code is run.

import (
	"bytes"
	"context"
	"encoding/json"
	"fmt"
	"os"
	"os/exec"
	"path/filepath"
	"regexp"
	"sort"
	"strings"
	"sync"
	"time"

	_ "github.com/octohelm/gengo/devpkg/deepcopygen"
	_ "github.com/octohelm/gengo/devpkg/partialstruct"
	_ "github.com/octohelm/gengo/devpkg/runtimedocgen"
	"github.com/octohelm/gengo/pkg/gengo"
)

const genMod = "example.com/m"

type genJob struct {
	GoVer       string              `json:"go"`
	Module      string              `json:"module,omitempty"`
	Files       map[string]string   `json:"files"` // rel path → content
	Entry       []string            `json:"entry"` // load patterns (./p0 …)
	Gens        []string            `json:"gens"`  // registered generator names
	Runs        int                 `json:"runs"`  // consecutive Execute runs (fresh context each)
	All         bool                `json:"all,omitempty"`
	ProbeCommon string              `json:"probe_common,omitempty"`
	Probes      map[string]string   `json:"probes,omitempty"` // package dir → probe file of package main; dropped when that package does not build
	KeepOnFail  bool                `json:"keep_on_fail,omitempty"`
	Base        string              `json:"base,omitempty"`  // OutputFileBaseName; "" = zz_generated
	Edits       []map[string]string `json:"edits,omitempty"` // Edits[r]: files rewritten (rel path → content) after run r and before run r+1 — the sources change between two runs over one tree
}

func (j *genJob) base() string {
	if j.Base == "" {
		return pipeBase
	}
	return j.Base
}

type genRunOut struct {
	ExecErr   []string            `json:"exec_err"`   // per run: "" or the error / panic text
	Generated []map[string]string `json:"generated"`  // per run: rel path → content of every zz_generated.* file
	BuildFail []map[string]string `json:"build_fail"` // per run: package dir → compiler output
	ProbeOut  string              `json:"probe_out"`
	ProbeErr  string              `json:"probe_err,omitempty"`
	Harness   string              `json:"harness,omitempty"`
}

func collectGenerated(dir string, base string) map[string]string {
	m := map[string]string{}
	filepath.Walk(dir, func(p string, info os.FileInfo, err error) error {
		if err != nil || info.IsDir() {
			return nil
		}
		if strings.HasPrefix(filepath.Base(p), base+".") {
			rel, _ := filepath.Rel(dir, p)
			b, _ := os.ReadFile(p)
			m[rel] = string(b)
		}
		return nil
	})
	return m
}

var rePkgHeader = regexp.MustCompile(`(?m)^# (\S+)`)

func goEnvForBuild() []string {
	env := []string{}
	for _, e := range os.Environ() {
		if strings.HasPrefix(e, "GOFLAGS=") {
			continue
		}
		env = append(env, e)
	}
	return append(env, "GOFLAGS=", "GOWORK=off")
}

// buildPackages compiles the entry packages and returns, per failing package dir, the compiler output.
func buildPackages(dir, module string, entry []string) map[string]string {
	fails := map[string]string{}
	const chunk = 100
	for s := 0; s < len(entry); s += chunk {
		args := append([]string{"build"}, entry[s:min(s+chunk, len(entry))]...)
		cmd := exec.Command("go", args...)
		cmd.Dir = dir
		cmd.Env = goEnvForBuild()
		out, err := cmd.CombinedOutput()
		if err == nil {
			continue
		}
		// split by "# pkg" headers
		text := string(out)
		idx := rePkgHeader.FindAllStringSubmatchIndex(text, -1)
		for i, m := range idx {
			end := len(text)
			if i+1 < len(idx) {
				end = idx[i+1][0]
			}
			pkg := text[m[2]:m[3]]
			d := strings.TrimPrefix(strings.TrimPrefix(pkg, module), "/")
			fails[d] = clip(strings.TrimSpace(text[m[1]:end]), 800)
		}
		// anything outside such headers (a package that cannot even be loaded: use of an internal package, an import
		// cycle, a missing package) is reported in other formats and stops the build of the whole list: every entry of
		// the chunk not yet known to fail is then built on its own and blamed for whatever its own build prints
		pre := text
		if len(idx) > 0 {
			pre = text[:idx[0][0]]
		}
		if strings.TrimSpace(pre) != "" {
			var mu sync.Mutex
			var wg sync.WaitGroup
			sem := make(chan struct{}, 8)
			for _, e := range entry[s:min(s+chunk, len(entry))] {
				d := strings.TrimPrefix(e, "./")
				if _, known := fails[d]; known {
					continue
				}
				wg.Add(1)
				go func(e, d string) {
					defer wg.Done()
					sem <- struct{}{}
					defer func() { <-sem }()
					c := exec.Command("go", "build", e)
					c.Dir = dir
					c.Env = goEnvForBuild()
					if o, err := c.CombinedOutput(); err != nil {
						mu.Lock()
						fails[d] = clip(strings.TrimSpace(string(o)), 800)
						mu.Unlock()
					}
				}(e, d)
			}
			wg.Wait()
		}
	}
	return fails
}

func runGenJobHere(job *genJob) *genRunOut {
	out := &genRunOut{}
	root, err := os.MkdirTemp("", "vhgen")
	if err != nil {
		out.Harness = err.Error()
		return out
	}
	defer os.RemoveAll(root)
	gv := job.GoVer
	if gv == "" {
		gv = "1.24"
	}
	mod := job.Module
	if mod == "" {
		mod = genMod
	}
	os.WriteFile(filepath.Join(root, "go.mod"), []byte("module "+mod+"\n\ngo "+gv+"\n"), 0o644)
	for rel, content := range job.Files {
		full := filepath.Join(root, rel)
		os.MkdirAll(filepath.Dir(full), 0o755)
		os.WriteFile(full, []byte(content), 0o644)
	}
	if err := os.Chdir(root); err != nil {
		out.Harness = err.Error()
		return out
	}
	defer os.Chdir("/")
	runs := job.Runs
	if runs < 1 {
		runs = 1
	}
	for r := 0; r < runs; r++ {
		errText := func() (res string) {
			defer func() {
				if rv := recover(); rv != nil {
					res = fmt.Sprintf("panic: %v", rv)
				}
			}()
			ctx, err := gengo.NewContext(&gengo.GeneratorArgs{Entrypoint: job.Entry, OutputFileBaseName: job.base(), All: job.All})
			if err != nil {
				return "load: " + err.Error()
			}
			if err := ctx.Execute(context.Background(), gengo.GetRegisteredGenerators(job.Gens...)...); err != nil {
				return err.Error()
			}
			return ""
		}()
		out.ExecErr = append(out.ExecErr, errText)
		out.Generated = append(out.Generated, collectGenerated(root, job.base()))
		out.BuildFail = append(out.BuildFail, buildPackages(root, mod, job.Entry))
		if r < len(job.Edits) {
			for rel, content := range job.Edits[r] {
				if content == "\x00delete" {
					os.Remove(filepath.Join(root, rel))
					continue
				}
				os.WriteFile(filepath.Join(root, rel), []byte(content), 0o644)
			}
		}
	}
	if job.ProbeCommon != "" {
		pd := filepath.Join(root, "cmd", "probe")
		os.MkdirAll(pd, 0o755)
		os.WriteFile(filepath.Join(pd, "main.go"), []byte(job.ProbeCommon), 0o644)
		last := out.BuildFail[len(out.BuildFail)-1]
		n := 0
		for d, src := range job.Probes {
			if _, bad := last[d]; bad {
				continue
			}
			os.WriteFile(filepath.Join(pd, "probe_"+strings.ReplaceAll(d, "/", "_")+".go"), []byte(src), 0o644)
			n++
		}
		cmd := exec.Command("go", "build", "-o", "probe.bin", "./cmd/probe")
		cmd.Dir = root
		cmd.Env = goEnvForBuild()
		if b, err := cmd.CombinedOutput(); err != nil {
			out.ProbeErr = "probe build: " + clip(string(b), 1500)
			return out
		}
		run := exec.Command(filepath.Join(root, "probe.bin"))
		run.Dir = root
		var stdout, stderr bytes.Buffer
		run.Stdout, run.Stderr = &stdout, &stderr
		if err := run.Start(); err != nil {
			out.ProbeErr = err.Error()
			return out
		}
		done := make(chan error, 1)
		go func() { done <- run.Wait() }()
		select {
		case err := <-done:
			if err != nil {
				out.ProbeErr = "probe run: " + err.Error() + " " + clip(stderr.String(), 1500)
			}
		case <-time.After(120 * time.Second):
			run.Process.Kill()
			out.ProbeErr = "probe run: timeout"
		}
		out.ProbeOut = stdout.String()
	}
	return out
}

func init() {
	childHandlers["genrun"] = func(args []string) int {
		outF := os.NewFile(3, "out")
		devnull, _ := os.OpenFile(os.DevNull, os.O_WRONLY, 0)
		os.Stdout = devnull
		var job genJob
		if err := json.NewDecoder(os.Stdin).Decode(&job); err != nil {
			return 2
		}
		b, _ := json.Marshal(runGenJobHere(&job))
		outF.Write(b)
		outF.Write([]byte("\n"))
		return 0
	}
}

func runGenJob(job *genJob) *genRunOut {
	in, _ := json.Marshal(job)
	raw := runChildJSON("genrun", in)
	out := &genRunOut{}
	if json.Unmarshal(raw, out) != nil {
		out.Harness = "child failed"
	}
	return out
}

// runGenJobs runs several jobs in parallel child processes.
func runGenJobs(jobs []*genJob, workers int) []*genRunOut {
	outs := make([]*genRunOut, len(jobs))
	sem := make(chan struct{}, workers)
	done := make(chan struct{})
	for i := range jobs {
		go func(i int) {
			sem <- struct{}{}
			outs[i] = runGenJob(jobs[i])
			<-sem
			done <- struct{}{}
		}(i)
	}
	for range jobs {
		<-done
	}
	return outs
}

func sortedKeys[V any](m map[string]V) []string {
	ks := make([]string, 0, len(m))
	for k := range m {
		ks = append(ks, k)
	}
	sort.Strings(ks)
	return ks
}
