package main

// C14 — programs of the extended language (Model/Resolver2): identifiers and assignments, named results and
// bare returns, calls with arguments (error-typed parameters, function literals), selectors, functions
// without body.  The program is printed to Go, loaded with the real loader and asked in supervised children;
// the same program, with every statement numbered in source order, goes to the model.

import (
	"encoding/json"
	"fmt"
	"sort"
	"strings"
	"time"
)

type XExpr struct {
	K    string  `json:"k"`              // lit | opaque | nil | ident | call | fn | funclit | spread (a []error operand followed by ..., V: its text)
	V    string  `json:"v,omitempty"`    // lit: the literal text
	Src  string  `json:"src,omitempty"`  // lit: printed like this instead (a constant's name: what it means is V at this place)
	Ty   byte    `json:"ty,omitempty"`   // type letter of the expression (i s e)
	X    int     `json:"x,omitempty"`    // ident: variable (see xVarName)
	F    int     `json:"f,omitempty"`    // call: callee; funclit: the literal's function index
	Args []XExpr `json:"args,omitempty"` // call: arguments
}

type XStmt struct {
	K   string  `json:"k"`             // assign | ret | bare | addassign
	Lhs []int   `json:"lhs,omitempty"` // assign: variables (-1: blank)
	Rhs []XExpr `json:"rhs,omitempty"`
	If  bool    `json:"if,omitempty"`  // wrapped in `if cond { … }`
	Pre string  `json:"pre,omitempty"` // a declaration printed on its own line ahead of the statement (not a statement of the model's language)
	pos int
}

type XFunc struct {
	Tys    string  `json:"tys"`              // one letter per result
	Named  bool    `json:"named,omitempty"`  // results are named r<f>_<i>
	Param  string  `json:"param,omitempty"`  // "" | e (e error) | f1 (fn func() error) | f2 (fn func() (int, error)) | ve (es ...error) | ev (e error, es ...error)
	Lit    bool    `json:"lit,omitempty"`    // a function literal, printed where it is used
	Parent int     `json:"parent,omitempty"` // literal: the enclosing top-level function
	NoBody bool    `json:"nobody,omitempty"` // declared without body
	Lib    bool    `json:"lib,omitempty"`    // declared in the sub-package lib (exported as H<f>); called from p through a selector
	Locals string  `json:"locals,omitempty"` // one type letter per local variable
	Body   []XStmt `json:"body,omitempty"`
}

type xprogCase struct {
	Fs     []XFunc `json:"funcs"`
	Q      int     `json:"query"`
	out    string
	orc    string
	have   bool
	curLib bool // while printing: inside the sub-package
}

// variable ids: f*100 + j local j · f*100 + 20 + i named result i · f*100 + 40 parameter e ·
// 9001 pkgErr (same file) · 9002 otherErr (other file) · 9003 st.fe · 9004 st.fi · 9005 otherInt (other file)
const (
	xPkgErr   = 9001
	xOtherErr = 9002
	xFieldErr = 9003
	xFieldInt = 9004
	xOtherInt = 9005
	xLibErr   = 9011 // package variables of the sub-package lib
	xLibInt   = 9012
)

func xVarName(id int) string {
	switch id {
	case xPkgErr:
		return "pkgErr"
	case xOtherErr:
		return "otherErr"
	case xFieldErr:
		return "st.fe"
	case xFieldInt:
		return "st.fi"
	case xOtherInt:
		return "otherInt"
	case xLibErr:
		return "libErr"
	case xLibInt:
		return "libInt"
	}
	f, r := id/100, id%100
	switch {
	case r == 40:
		return "e"
	case r >= 20:
		return fmt.Sprintf("r%d_%d", f, r-20)
	default:
		return fmt.Sprintf("l%d_%d", f, r)
	}
}

// objNil: the parser leaves the identifier unresolved (other file, universe) — and never resolves a selector
func xObjNil(id int) bool {
	return id == xOtherErr || id == xFieldErr || id == xFieldInt || id == xOtherInt
}

func xLitSig(param string) string {
	if param == "f2" {
		return "ie"
	}
	return "e"
}

func xGoTys(tys string) string {
	var ts []string
	for i := range tys {
		ts = append(ts, goTy[tys[i]])
	}
	return strings.Join(ts, ", ")
}

// number assigns every statement its position in source order (literal bodies inside the statement that holds them)
func (c *xprogCase) number() {
	n := 0
	var stmts func(f int)
	var expr func(e *XExpr)
	expr = func(e *XExpr) {
		switch e.K {
		case "call":
			for i := range e.Args {
				expr(&e.Args[i])
			}
		case "funclit":
			stmts(e.F)
		}
	}
	stmts = func(f int) {
		for i := range c.Fs[f].Body {
			n++
			c.Fs[f].Body[i].pos = n
			for j := range c.Fs[f].Body[i].Rhs {
				expr(&c.Fs[f].Body[i].Rhs[j])
			}
		}
	}
	for f := range c.Fs {
		if !c.Fs[f].Lit {
			stmts(f)
		}
	}
}

func (c *xprogCase) exprSrc(e XExpr, indent string) string {
	switch e.K {
	case "lit":
		if e.Src != "" {
			return e.Src
		}
		return e.V
	case "nil":
		return "nil"
	case "opaque":
		return map[byte]string{'i': "vi + 0", 's': `vs + ""`, 'e': "va.(error)"}[e.Ty]
	case "ident":
		return xVarName(e.X)
	case "fn":
		return "fn()"
	case "spread":
		return e.V + "..."
	case "funclit":
		fn := c.Fs[e.F]
		var b strings.Builder
		fmt.Fprintf(&b, "func() (%s) {\n", xGoTys(fn.Tys))
		c.bodySrc(&b, e.F, indent+"\t")
		b.WriteString(indent + "}")
		return b.String()
	case "call":
		var as []string
		for _, a := range e.Args {
			as = append(as, c.exprSrc(a, indent))
		}
		return fmt.Sprintf("%s(%s)", c.calleeName(e.F, c.curLib), strings.Join(as, ", "))
	}
	return "nil"
}

// calleeName: how function f is called from the main package (fromLib false) or from inside lib
func (c *xprogCase) calleeName(f int, fromLib bool) string {
	switch {
	case c.Fs[f].Lib && fromLib:
		return fmt.Sprintf("H%d", f)
	case c.Fs[f].Lib:
		return fmt.Sprintf("lib.H%d", f)
	}
	return fmt.Sprintf("F%d", f)
}

func (c *xprogCase) hasLib() bool {
	for _, fn := range c.Fs {
		if fn.Lib && !fn.Lit {
			return true
		}
	}
	return false
}

func (c *xprogCase) bodySrc(b *strings.Builder, f int, indent string) {
	fn := c.Fs[f]
	var use []string
	for j := range fn.Locals {
		fmt.Fprintf(b, "%svar %s %s\n", indent, xVarName(f*100+j), goTy[fn.Locals[j]])
		use = append(use, xVarName(f*100+j))
	}
	if len(use) > 0 {
		fmt.Fprintf(b, "%suse(%s)\n", indent, strings.Join(use, ", "))
	}
	for _, s := range fn.Body {
		var rhs []string
		for _, e := range s.Rhs {
			rhs = append(rhs, c.exprSrc(e, indent+"\t\t"))
		}
		var text string
		switch s.K {
		case "assign", "addassign":
			var lhs []string
			for _, x := range s.Lhs {
				if x < 0 {
					lhs = append(lhs, "_")
				} else {
					lhs = append(lhs, xVarName(x))
				}
			}
			op := "="
			if s.K == "addassign" {
				op = "+="
			}
			text = fmt.Sprintf("%s %s %s", strings.Join(lhs, ", "), op, strings.Join(rhs, ", "))
		case "ret":
			text = "return " + strings.Join(rhs, ", ")
		case "bare":
			text = "return"
		}
		if s.Pre != "" {
			fmt.Fprintf(b, "%s%s\n", indent, s.Pre)
		}
		if s.If {
			// nested somewhere below the top level of the body (see nestStmt); the kind of nesting goes by the statement's number
			b.WriteString(nestStmt(s.pos, fmt.Sprintf("L%d", s.pos), text, indent))
		} else {
			fmt.Fprintf(b, "%s%s\n", indent, text)
		}
	}
}

// sources: idx is the index of the package in the batch it is loaded with (the sub-package's import path depends on it)
func (c *xprogCase) sources(idx int) map[string]string {
	c.number()
	var b, lb strings.Builder
	b.WriteString("package p\n\n")
	if c.hasLib() {
		fmt.Fprintf(&b, "import lib \"%s/c%d/lib\"\n\nvar _ = lib.Use\n\n", batchMod, idx)
	}
	b.WriteString("const unit = 1\n\nconst word = \"w\"\n\nvar vi int\nvar vs string\nvar va any\nvar cond bool\nvar pkgErr error\n\nvar st struct {\n\tfe error\n\tfi int\n}\n\nfunc use(...any) {}\n\nfunc mkErrs() []error { return nil }\n\n")
	lb.WriteString("package lib\n\nvar vi int\nvar vs string\nvar va any\nvar cond bool\nvar libErr error\nvar libInt int\n\nfunc use(...any) {}\n\nfunc Use(...any) {}\n\nfunc mkErrs() []error { return nil }\n\n")
	mainB := &b
	for f, fn := range c.Fs {
		if fn.Lit {
			continue
		}
		b := mainB
		name := fmt.Sprintf("F%d", f)
		c.curLib = fn.Lib
		if fn.Lib {
			b, name = &lb, fmt.Sprintf("H%d", f)
		}
		param := map[string]string{"": "", "e": "e error", "f1": "fn func() error", "f2": "fn func() (int, error)", "ve": "es ...error", "ev": "e error, es ...error"}[fn.Param]
		var rs []string
		for i := range fn.Tys {
			if fn.Named {
				rs = append(rs, fmt.Sprintf("r%d_%d %s", f, i, goTy[fn.Tys[i]]))
			} else {
				rs = append(rs, goTy[fn.Tys[i]])
			}
		}
		if fn.NoBody {
			fmt.Fprintf(b, "func %s(%s) (%s)\n\n", name, param, strings.Join(rs, ", "))
			continue
		}
		fmt.Fprintf(b, "func %s(%s) (%s) {\n", name, param, strings.Join(rs, ", "))
		c.bodySrc(b, f, "\t")
		b.WriteString("}\n\n")
	}
	c.curLib = false
	files := map[string]string{"p.go": b.String(), "q.go": "package p\n\nvar otherErr error\nvar otherInt int\nvar otherErrs []error\n"}
	if c.hasLib() {
		files["lib/lib.go"] = lb.String()
	}
	return files
}

func xTyLetters(tys string) string {
	if tys == "" {
		return "_"
	}
	return tys
}

func (c *xprogCase) exprEnc(e XExpr, out *[]string) {
	switch e.K {
	case "lit":
		*out = append(*out, "L"+hx(e.V))
	case "nil":
		*out = append(*out, "I9000,1,t"+hx("untyped nil"))
	case "opaque":
		*out = append(*out, "O"+hx(goTy[e.Ty]))
	case "ident":
		*out = append(*out, fmt.Sprintf("I%d,%s,t%s", e.X, b01(xObjNil(e.X)), hx(goTy[e.Ty])))
	case "spread":
		*out = append(*out, "O"+hx("[]error")) // stands in the variadic parameter, whose type is []error: never looked at
	case "fn":
		*out = append(*out, fmt.Sprintf("C-,%s,_,0", xTyLetters(string(e.Ty))))
	case "funclit":
		*out = append(*out, fmt.Sprintf("U%d,%s", e.F, hx("func()")))
	case "call":
		callee := c.Fs[e.F]
		// one bit per declared parameter: is its type `error`?  (a variadic `es ...error` has type []error; arguments
		// beyond the declared parameters have no bit)
		perr := map[string]string{"": "_", "e": "1", "f1": "0", "f2": "0", "ve": "0", "ev": "10"}[callee.Param]
		target := fmt.Sprint(e.F)
		*out = append(*out, fmt.Sprintf("C%s,%s,%s,%d", target, xTyLetters(callee.Tys), perr, len(e.Args)))
		for _, a := range e.Args {
			c.exprEnc(a, out)
		}
	}
}

func (c *xprogCase) Line() string {
	c.number()
	var qs []string
	for _, f := range c.order() {
		qs = append(qs, fmt.Sprint(f))
	}
	toks := []string{"resolve2", strings.Join(qs, ","), "P", fmt.Sprint(len(c.Fs))}
	for f, fn := range c.Fs {
		named := "_"
		if len(fn.Tys) > 0 {
			var ns []string
			for i := range fn.Tys {
				if fn.Named {
					ns = append(ns, fmt.Sprint(f*100+20+i))
				} else {
					ns = append(ns, "-")
				}
			}
			named = strings.Join(ns, ",")
		}
		if fn.NoBody {
			toks = append(toks, "F", xTyLetters(fn.Tys), named, "X")
			continue
		}
		toks = append(toks, "F", xTyLetters(fn.Tys), named, fmt.Sprint(len(fn.Body)))
		for _, s := range fn.Body {
			switch s.K {
			case "assign", "addassign":
				var lhs []string
				for _, x := range s.Lhs {
					if x < 0 {
						lhs = append(lhs, "-")
					} else {
						lhs = append(lhs, fmt.Sprint(x))
					}
				}
				toks = append(toks, "A", fmt.Sprint(s.pos), strings.Join(lhs, ","), fmt.Sprint(len(s.Rhs)))
			case "ret":
				toks = append(toks, "R", fmt.Sprint(s.pos), fmt.Sprint(len(s.Rhs)))
			case "bare":
				toks = append(toks, "B", fmt.Sprint(s.pos))
			}
			for _, e := range s.Rhs {
				c.exprEnc(e, &toks)
			}
		}
	}
	return strings.Join(toks, " ")
}

// order: every top-level function, starting with the queried one — asked one after the other on ONE loaded package,
// so that an answer that depends on what was asked before shows against the model's independent answers
func (c *xprogCase) order() []int {
	var tops []int
	for f, fn := range c.Fs {
		if !fn.Lit && !fn.Lib {
			tops = append(tops, f)
		}
	}
	if len(tops) == 0 { // everything moved to lib: ask nothing but keep the protocol alive
		return nil
	}
	var out []int
	for i := range tops {
		out = append(out, tops[(i+c.Q)%len(tops)])
	}
	return out
}

func (c *xprogCase) job() (rJob, int) {
	job := rJob{Sources: []map[string]string{c.sources(0)}}
	for _, f := range c.order() {
		job.Queries = append(job.Queries, rQuery{Pkg: 0, Func: fmt.Sprintf("F%d", f)})
	}
	n := len(job.Queries)
	if c.hasLib() && n > 0 {
		// then the functions of the package the asked ones call into, and the same questions once more: what the
		// resolver says about a function does not depend on what it was asked before
		for f, fn := range c.Fs {
			if fn.Lib && !fn.Lit {
				job.Queries = append(job.Queries, rQuery{Pkg: 0, Func: fmt.Sprintf("H%d", f), Sub: "lib"})
			}
		}
		job.Queries = append(job.Queries, job.Queries[:n]...)
	}
	return job, n
}

func joinAnswers(ans []rAnswer) (out, orc string) {
	var outs []string
	for _, a := range ans {
		outs = append(outs, a.Out)
		if a.Oracle != "" && orc == "" {
			orc = a.Oracle
		}
	}
	return strings.Join(outs, ";"), orc
}

func (c *xprogCase) Run() string {
	if !c.have {
		job, n := c.job()
		ans := superviseJob(job, len(job.Queries), 8*time.Second)
		first := ans
		if len(ans) >= n {
			first = ans[:n]
		}
		c.out, c.orc = joinAnswers(first)
		if c.orc == "" && len(job.Queries) > n && len(ans) == len(job.Queries) {
			for i := 0; i < n; i++ {
				if again := ans[len(ans)-n+i]; again.Out != ans[i].Out {
					c.orc = fmt.Sprintf("ResultsOf(%s) answered %s, and %s once the functions of the package it calls into had been asked about", job.Queries[i].Func, ans[i].Out, again.Out)
					break
				}
			}
		}
		c.have = true
	}
	return c.out
}

// firstAsked: the function the first question (and the literal-exactness oracle) is about
func (c *xprogCase) firstAsked() int {
	if o := c.order(); len(o) > 0 {
		return o[0]
	}
	return 0
}

func (c *xprogCase) literalOnly() bool {
	fn := c.Fs[c.firstAsked()]
	if fn.Lib {
		return false
	}
	if fn.NoBody {
		return false
	}
	n := 0
	for _, s := range fn.Body {
		if s.K == "bare" {
			return false
		}
		if s.K != "ret" {
			continue
		}
		n++
		if len(s.Rhs) != len(fn.Tys) {
			return false
		}
		for _, e := range s.Rhs {
			if e.K != "lit" {
				return false
			}
		}
	}
	return n > 0
}

func (c *xprogCase) Oracle(out string) string {
	if c.orc != "" {
		return c.orc
	}
	if c.literalOnly() {
		fn := c.Fs[c.firstAsked()]
		var cols []string
		for pos := range fn.Tys {
			var alts []string
			for _, s := range fn.Body {
				if s.K == "ret" {
					alts = append(alts, s.Rhs[pos].V)
				}
			}
			cols = append(cols, strings.Join(alts, " | "))
		}
		if want := "(" + strings.Join(cols, ", ") + ")"; strings.SplitN(out, ";", 2)[0] != want {
			return "a function returning only literals reports " + out + "; its literals in source order are " + want
		}
	}
	return ""
}

func (c *xprogCase) clone() *xprogCase {
	b, _ := json.Marshal(c)
	n := &xprogCase{}
	json.Unmarshal(b, n)
	return n
}

// litsUsed: the function literals reachable from the statements of f
func litsIn(es []XExpr, acc map[int]bool) {
	for _, e := range es {
		if e.K == "funclit" {
			acc[e.F] = true
		}
		litsIn(e.Args, acc)
	}
}

func (c *xprogCase) Shrinks() []Case {
	var out []Case
	// drop a statement (never the last one of a body: it is the terminating return); a literal that loses its
	// only use keeps its slot with an empty shell so that indices stay valid
	for f := range c.Fs {
		for i := 0; i+1 < len(c.Fs[f].Body); i++ {
			n := c.clone()
			dropped := map[int]bool{}
			litsIn(n.Fs[f].Body[i].Rhs, dropped)
			n.Fs[f].Body = append(n.Fs[f].Body[:i:i], n.Fs[f].Body[i+1:]...)
			for l := range dropped {
				n.Fs[l].Body = []XStmt{{K: "ret", Rhs: xZero(n.Fs[l].Tys)}}
				n.Fs[l].Locals = ""
				n.Fs[l].Lit = false // becomes an unused top-level function
				n.Fs[l].Param = ""
			}
			out = append(out, n)
		}
	}
	// replace an argument-less call or an identifier by an opaque expression
	var walk func(e *XExpr, do func(e *XExpr))
	walk = func(e *XExpr, do func(e *XExpr)) {
		do(e)
		for i := range e.Args {
			walk(&e.Args[i], do)
		}
	}
	count := 0
	for f := range c.Fs {
		for i := range c.Fs[f].Body {
			for j := range c.Fs[f].Body[i].Rhs {
				walk(&c.Fs[f].Body[i].Rhs[j], func(e *XExpr) { count++ })
			}
		}
	}
	for k := 0; k < count; k++ {
		n := c.clone()
		idx := 0
		changed := false
		for f := range n.Fs {
			for i := range n.Fs[f].Body {
				single := len(n.Fs[f].Body[i].Rhs) == len(n.Fs[f].Body[i].Lhs) || (n.Fs[f].Body[i].K == "ret" && len(n.Fs[f].Body[i].Rhs) == len(n.Fs[f].Tys))
				for j := range n.Fs[f].Body[i].Rhs {
					top := &n.Fs[f].Body[i].Rhs[j]
					walk(top, func(e *XExpr) {
						if idx == k && (e.K == "ident" || e.K == "fn" || (e.K == "call" && len(e.Args) == 0 && (single || e != top))) && e.Ty != 0 {
							*e = XExpr{K: "opaque", Ty: e.Ty}
							changed = true
						}
						idx++
					})
				}
			}
		}
		if changed {
			out = append(out, n)
		}
	}
	// drop the last argument standing in a variadic parameter
	for k := 0; k < count; k++ {
		n := c.clone()
		idx := 0
		changed := false
		for f := range n.Fs {
			for i := range n.Fs[f].Body {
				for j := range n.Fs[f].Body[i].Rhs {
					walk(&n.Fs[f].Body[i].Rhs[j], func(e *XExpr) {
						if idx == k && e.K == "call" {
							fixed := map[string]int{"ve": 0, "ev": 1}
							if m, ok := fixed[n.Fs[e.F].Param]; ok && len(e.Args) > m {
								last := e.Args[len(e.Args)-1]
								lits := map[int]bool{}
								litsIn([]XExpr{last}, lits)
								if len(lits) == 0 {
									e.Args = e.Args[:len(e.Args)-1]
									changed = true
								}
							}
						}
						idx++
					})
				}
			}
		}
		if changed {
			out = append(out, n)
		}
	}
	return out
}

func xZero(tys string) []XExpr {
	var es []XExpr
	for i := range tys {
		switch tys[i] {
		case 'i':
			es = append(es, XExpr{K: "lit", V: "0", Ty: 'i'})
		case 's':
			es = append(es, XExpr{K: "lit", V: `""`, Ty: 's'})
		default:
			es = append(es, XExpr{K: "nil", Ty: 'e'})
		}
	}
	return es
}

func (c *xprogCase) Key() string { return strings.TrimPrefix(c.Line(), "resolve2 ") }

func (c *xprogCase) Classes() []string {
	m := map[string]bool{}
	var walk func(e XExpr)
	walk = func(e XExpr) {
		m["expr:"+e.K] = true
		if e.K == "call" && (c.Fs[e.F].Param == "ve" || c.Fs[e.F].Param == "ev") {
			m["call:variadic"] = true
		}
		if e.K == "ident" {
			switch {
			case e.X >= 9000:
				m["ident:"+xVarName(e.X)] = true
			case e.X%100 == 40:
				m["ident:param"] = true
			case e.X%100 >= 20:
				m["ident:named-result"] = true
			default:
				m["ident:local"] = true
			}
		}
		if e.K == "call" {
			m["call:param-"+c.Fs[e.F].Param] = true
			if c.Fs[e.F].NoBody {
				m["call:no-body"] = true
			}
			if c.Fs[e.F].Lib {
				m["call:other-package"] = true
			}
		}
		for _, a := range e.Args {
			walk(a)
		}
	}
	for _, fn := range c.Fs {
		if fn.Named {
			m["named-results"] = true
		}
		for _, s := range fn.Body {
			m["stmt:"+s.K] = true
			if s.Pre != "" {
				m["name-redeclared-between-two-uses"] = true
			}
			if s.K == "assign" && len(s.Lhs) > len(s.Rhs) {
				m["assign:forwarding"] = true
			}
			if s.K == "assign" && len(s.Lhs) > 1 && len(s.Lhs) == len(s.Rhs) {
				m["assign:tuple"] = true
			}
			if s.K == "ret" && len(s.Rhs) < len(fn.Tys) {
				m["return:forwarding"] = true
			}
			for _, e := range s.Rhs {
				walk(e)
			}
		}
	}
	if c.literalOnly() {
		m["literal-only"] = true
	}
	var cl []string
	for k := range m {
		cl = append(cl, k)
	}
	sort.Strings(cl)
	return cl
}
func (c *xprogCase) Nontrivial() bool { return len(c.Classes()) > 3 }

// ---------------------------------------------------------------- generation

type xgen struct {
	r  *Rng
	fs []XFunc
}

// vars of type t visible in function f (a literal also sees its parent's locals, named results and parameter)
func (g *xgen) vars(f int, t byte, assignable bool) []int {
	var out []int
	add := func(h int) {
		fn := g.fs[h]
		for j := range fn.Locals {
			if fn.Locals[j] == t {
				out = append(out, h*100+j)
			}
		}
		if fn.Named {
			for i := range fn.Tys {
				if fn.Tys[i] == t {
					out = append(out, h*100+20+i)
				}
			}
		}
		if (fn.Param == "e" || fn.Param == "ev") && t == 'e' {
			out = append(out, h*100+40)
		}
	}
	add(f)
	if g.fs[f].Lit {
		add(g.fs[f].Parent)
	}
	_ = assignable // package variables and fields are assigned like locals: the resolver goes by object identity
	inLib := g.fs[f].Lib
	switch {
	case t == 'e' && inLib:
		out = append(out, xLibErr)
	case t == 'e':
		out = append(out, xPkgErr, xFieldErr, xOtherErr)
	case t == 'i' && inLib:
		out = append(out, xLibInt)
	case t == 'i':
		out = append(out, xFieldInt, xOtherInt)
	}
	return out
}

// newLit appends a function literal for a parameter of kind f1/f2 used inside function f
func (g *xgen) newLit(f int, param string, depth int) int {
	parent := f
	if g.fs[f].Lit {
		parent = g.fs[f].Parent
	}
	idx := len(g.fs)
	g.fs = append(g.fs, XFunc{Tys: xLitSig(param), Lit: true, Parent: parent, Lib: g.fs[parent].Lib})
	loc := ""
	for n := g.r.Intn(3); n > 0; n-- {
		loc += string("iee"[g.r.Intn(3)])
	}
	g.fs[idx].Locals = loc
	g.fs[idx].Body = g.body(idx, depth+1)
	return idx
}

func (g *xgen) expr(f int, t byte, depth int) XExpr {
	r := g.r
	for try := 0; try < 4; try++ {
		switch r.Intn(9) {
		case 0, 1:
			if vs := g.vars(f, t, false); len(vs) > 0 {
				return XExpr{K: "ident", X: Pick(r, vs), Ty: t}
			}
		case 2, 3:
			if depth < 3 {
				var cands []int
				for j, fn := range g.fs {
					if !fn.Lit && fn.Tys == string(t) && (fn.Param == "" || fn.Param == "e" || fn.Param == "ve" || fn.Param == "ev" || depth < 2) && (fn.Lib || !g.fs[f].Lib) {
						cands = append(cands, j)
					}
				}
				if len(cands) > 0 {
					return g.call(f, Pick(r, cands), t, depth)
				}
			}
		case 4:
			if t == 'e' {
				top := f
				if g.fs[f].Lit {
					top = g.fs[f].Parent
				}
				if g.fs[top].Param == "f1" {
					return XExpr{K: "fn", Ty: 'e'}
				}
			}
		case 5:
			return XExpr{K: "opaque", Ty: t}
		}
	}
	switch t {
	case 'i':
		return XExpr{K: "lit", V: fmt.Sprint(1 + r.Intn(3)), Ty: t}
	case 's':
		return XExpr{K: "lit", V: Pick(r, []string{`"a"`, `"b"`}), Ty: t}
	}
	return XExpr{K: "nil", Ty: t}
}

func (g *xgen) call(f, callee int, t byte, depth int) XExpr {
	e := XExpr{K: "call", F: callee, Ty: t}
	switch g.fs[callee].Param {
	case "e":
		e.Args = []XExpr{g.expr(f, 'e', depth+1)}
	case "f1", "f2":
		e.Args = []XExpr{{K: "funclit", F: g.newLit(f, g.fs[callee].Param, depth)}}
	case "ve", "ev":
		if g.fs[callee].Param == "ev" {
			e.Args = []XExpr{g.expr(f, 'e', depth+1)}
		}
		if g.r.Chance(35) { // the slice spread into the variadic parameter
			ops := []string{"mkErrs()"}
			if !g.fs[f].Lib {
				ops = append(ops, "otherErrs", "otherErrs")
			}
			e.Args = append(e.Args, XExpr{K: "spread", V: Pick(g.r, ops)})
		} else {
			for n := g.r.Intn(3); n > 0; n-- {
				e.Args = append(e.Args, g.expr(f, 'e', depth+1))
			}
		}
	}
	return e
}

func (g *xgen) body(f int, depth int) []XStmt {
	r := g.r
	fn := g.fs[f]
	var body []XStmt
	tuple := func(tys string) (int, bool) {
		var cands []int
		for j, h := range g.fs {
			if !h.Lit && h.Tys == tys && (h.Param == "" || h.Param == "e" || h.Param == "ve" || h.Param == "ev" || depth < 2) && (h.Lib || !fn.Lib) {
				cands = append(cands, j)
			}
		}
		if len(cands) == 0 {
			return 0, false
		}
		return Pick(r, cands), true
	}
	ns := 1 + r.Intn(5)
	if depth > 0 {
		ns = 1 + r.Intn(3)
	}
	for i := 0; i < ns; i++ {
		last := i == ns-1
		s := XStmt{If: !last && r.Chance(40)}
		switch {
		case !last && r.Chance(50): // assignment
			switch r.Intn(6) {
			case 0: // x, y = F()
				t1, t2 := "ise"[r.Intn(3)], byte('e')
				v1, v2 := g.vars(f, t1, true), g.vars(f, t2, true)
				if callee, ok := tuple(string([]byte{t1, t2})); ok && len(v1) > 0 && len(v2) > 0 {
					a, b := Pick(r, v1), Pick(r, v2)
					if r.Chance(20) {
						a = -1
					}
					if a != b {
						s.K, s.Lhs, s.Rhs = "assign", []int{a, b}, []XExpr{g.call(f, callee, 0, depth)}
					}
				}
			case 1: // x, y = y, x  /  x, y = e1, e2
				t := "ie"[r.Intn(2)]
				vs := g.vars(f, t, true)
				if len(vs) >= 2 {
					a, b := Pick(r, vs), Pick(r, vs)
					if a != b {
						s.K, s.Lhs = "assign", []int{a, b}
						if r.Chance(50) {
							s.Rhs = []XExpr{{K: "ident", X: b, Ty: t}, {K: "ident", X: a, Ty: t}}
						} else {
							s.Rhs = []XExpr{g.expr(f, t, depth), g.expr(f, t, depth)}
						}
					}
				}
			case 2: // i += 2
				if vs := g.vars(f, 'i', true); len(vs) > 0 {
					s.K, s.Lhs, s.Rhs = "addassign", []int{Pick(r, vs)}, []XExpr{{K: "lit", V: "2", Ty: 'i'}}
				}
			default:
				t := "isee"[r.Intn(4)]
				if vs := g.vars(f, t, true); len(vs) > 0 {
					s.K, s.Lhs, s.Rhs = "assign", []int{Pick(r, vs)}, []XExpr{g.expr(f, t, depth)}
				}
			}
		}
		if s.K == "" { // return
			switch {
			case fn.Named && r.Chance(35):
				s.K = "bare"
			case len(fn.Tys) > 1 && r.Chance(30):
				if callee, ok := tuple(fn.Tys); ok {
					s.K, s.Rhs = "ret", []XExpr{g.call(f, callee, 0, depth)}
				}
			}
			if s.K == "" {
				s.K = "ret"
				for j := range fn.Tys {
					s.Rhs = append(s.Rhs, g.expr(f, fn.Tys[j], depth))
				}
			}
		}
		body = append(body, s)
	}
	if k := body[len(body)-1].K; k != "ret" && k != "bare" {
		s := XStmt{K: "ret"}
		for j := range fn.Tys {
			s.Rhs = append(s.Rhs, g.expr(f, fn.Tys[j], depth))
		}
		body = append(body, s)
	}
	return body
}

func genXProg(r *Rng) *xprogCase {
	g := &xgen{r: r}
	k := 2 + r.Intn(5)
	for f := 0; f < k; f++ {
		n := 1 + r.Intn(3)
		b := make([]byte, n)
		for i := range b {
			b[i] = "iseee"[r.Intn(5)]
		}
		if r.Chance(35) {
			b = []byte("e")
		}
		if r.Chance(20) {
			b = []byte("ie")
		}
		fn := XFunc{Tys: string(b), Named: r.Chance(35), Param: Pick(r, []string{"", "", "", "e", "e", "f1", "f2", "ve", "ev"})}
		for m := r.Intn(4); m > 0; m-- {
			fn.Locals += string("isee"[r.Intn(4)])
		}
		if r.Chance(5) {
			fn.NoBody, fn.Locals, fn.Named = true, "", false
		}
		fn.Lib = f > 0 && r.Chance(25) // F0 stays in the main package
		g.fs = append(g.fs, fn)
	}
	for f := 0; f < k; f++ {
		if !g.fs[f].NoBody {
			body := g.body(f, 0)
			g.fs[f].Body = body
		}
	}
	if r.Chance(12) { // a literal-only function, among the others
		f := r.Intn(k)
		if !g.fs[f].NoBody && !strings.Contains(g.fs[f].Tys, "e") {
			var body []XStmt
			for _, s := range g.fs[f].Body {
				if s.K == "assign" || s.K == "addassign" {
					lits := map[int]bool{}
					litsIn(s.Rhs, lits)
					if len(lits) == 0 {
						body = append(body, s)
					}
				}
			}
			for n := 1 + r.Intn(3); n > 0; n-- {
				s := XStmt{K: "ret", If: n > 1}
				for j := range g.fs[f].Tys {
					if g.fs[f].Tys[j] == 'i' {
						s.Rhs = append(s.Rhs, XExpr{K: "lit", V: fmt.Sprint(1 + r.Intn(5)), Ty: 'i'})
					} else {
						s.Rhs = append(s.Rhs, XExpr{K: "lit", V: Pick(r, []string{`"a"`, `"b"`, `"c"`}), Ty: 's'})
					}
				}
				body = append(body, s)
			}
			g.fs[f].Body = body
		}
	}
	if r.Chance(15) {
		// one name, two meanings in one block: a named result is assigned an expression over a package-level constant,
		// the name is then declared again locally (another value, perhaps another type), and another named result is
		// assigned the same expression text — which an evaluator must not confuse with the first.  (`unit + unit`, not
		// the bare name: a bare identifier is followed to its object, an expression is evaluated where it stands; two
		// different results: of two assignments to one variable only the later one counts.)
		type pair struct{ f, a, b int }
		var cand []pair
		for f, fn := range g.fs {
			if !fn.Named || fn.NoBody || fn.Lib || fn.Lit {
				continue
			}
			for a := 0; a < len(fn.Tys); a++ {
				for b := a + 1; b < len(fn.Tys); b++ {
					if fn.Tys[a] != 'e' && fn.Tys[b] != 'e' {
						cand = append(cand, pair{f, a, b})
					}
				}
			}
		}
		if len(cand) > 0 {
			pr := cand[r.Intn(len(cand))]
			if r.Bool() {
				pr.a, pr.b = pr.b, pr.a // the textually first assignment may be to the later result
			}
			tys := g.fs[pr.f].Tys
			name, first := "unit", "2"
			if tys[pr.a] == 's' {
				name, first = "word", `"ww"`
			}
			decl, second := fmt.Sprintf("const %s = 7", name), "14"
			if tys[pr.b] == 's' {
				decl, second = fmt.Sprintf("const %s = \"k\"", name), `"kk"`
			}
			src := name + " + " + name
			pre := []XStmt{
				{K: "assign", Lhs: []int{pr.f*100 + 20 + pr.a}, Rhs: []XExpr{{K: "lit", V: first, Ty: tys[pr.a], Src: src}}},
				{K: "assign", Lhs: []int{pr.f*100 + 20 + pr.b}, Rhs: []XExpr{{K: "lit", V: second, Ty: tys[pr.b], Src: src}}, Pre: decl},
			}
			g.fs[pr.f].Body = append(pre, g.fs[pr.f].Body...)
		}
	}
	if r.Chance(4) {
		// a function with more results than any table of a fixed size has slots (66: sixty-four ints and two errors),
		// recursive through a forwarding return — the recursion has to be cut for the results at the far end too
		tys := strings.Repeat("i", 64) + "ee"
		var lits []XExpr
		for i := range tys {
			if tys[i] == 'i' {
				lits = append(lits, XExpr{K: "lit", V: fmt.Sprint(1 + i%7), Ty: 'i'})
			} else {
				lits = append(lits, XExpr{K: "nil"})
			}
		}
		f := len(g.fs)
		g.fs = append(g.fs, XFunc{Tys: tys, Body: []XStmt{
			{K: "ret", If: true, Rhs: []XExpr{{K: "call", F: f}}},
			{K: "ret", Rhs: lits},
		}})
		k = len(g.fs)
	}
	c := &xprogCase{Fs: g.fs, Q: r.Intn(k)}
	return c
}

func xprogBatch(cases []Case) []string {
	res := make([]string, len(cases))
	const chunk = 100
	type shard struct{ start, end int }
	var shards []shard
	for s := 0; s < len(cases); s += chunk {
		shards = append(shards, shard{s, min(s+chunk, len(cases))})
	}
	sem := make(chan struct{}, 8)
	done := make(chan struct{})
	for _, sh := range shards {
		go func(sh shard) {
			sem <- struct{}{}
			defer func() { <-sem; done <- struct{}{} }()
			job := rJob{}
			var from []int
			for i, c := range cases[sh.start:sh.end] {
				pc := c.(*xprogCase)
				job.Sources = append(job.Sources, pc.sources(i))
				from = append(from, len(job.Queries))
				for _, f := range pc.order() {
					job.Queries = append(job.Queries, rQuery{Pkg: i, Func: fmt.Sprintf("F%d", f)})
				}
			}
			from = append(from, len(job.Queries))
			ans := superviseJob(job, len(job.Queries), 8*time.Second)
			for i, c := range cases[sh.start:sh.end] {
				pc := c.(*xprogCase)
				pc.out, pc.orc = joinAnswers(ans[from[i]:from[i+1]])
				pc.have = true
				res[sh.start+i] = pc.out
			}
		}(sh)
	}
	for range shards {
		<-done
	}
	return res
}

var xprogStream = &Stream{
	Name: "extended-programs", Quick: 1500, Thorough: 10000, New: func() Case { return &xprogCase{} },
	Gen:      func(r *Rng, i int) Case { return genXProg(r) },
	BatchRun: xprogBatch, ShrinkBudget: 40, MaxShrinks: 5,
	Rule: "programs of 2–6 functions over the extended language of Model/Resolver2: 1–3 results of int/string/error (named in a third of the functions), parameters none / `e error` / `fn func() error` / `fn func() (int, error)` / `es ...error` / `e error, es ...error` (called with 0–2 listed arguments or with a slice spread into them), 0–3 local variables, 1–6 statements (some nested in an if, a for, a labelled for or switch, a bare block, a switch case, a range loop or a select) among single, tuple, forwarding (`x, err = F()`) and `+=` assignments to locals, named results, captured variables, package variables and struct fields, full / forwarding / bare returns; expressions: literals, nil, opaque, identifiers (locals, named results, parameters, package variables of the same and of another file, selectors), calls with an error argument (itself an identifier, nil or a call) or a function literal argument with its own locals and statements, calls through a function-typed parameter, calls through a selector into functions of a sub-package (which call one another, use that package's variables and take literals too), functions declared without body, a literal-only function now and then, now and then a self-recursive function with 66 results, and in one program of seven an expression over a package-level constant assigned to one named result, the constant's name declared again locally (another value or another type), and the same expression text assigned to another named result; printed to Go (two files), loaded with the real loader (100 per load), every top-level function of a program asked one after the other on the same loaded package in supervised children (the model answers each question from scratch); every statement carries its source-order number for the model; compared: FuncResults.String(); oracle as for the core programs",
}
