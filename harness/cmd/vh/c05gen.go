package main

// C05 for the generators that ship with gengo: type graphs spread over several packages, the real deepcopy and
// runtimedoc generators, each package generated alone and together with the others (separate processes), the
// generated files compared byte for byte.

import (
	"fmt"
	"regexp"
	"slices"
	"sort"
	"strings"
)

type SField struct {
	Name string `json:"name"`
	Ty   string `json:"ty"` // p int · s []int · m map[string]int · L<pkg>.<type> a struct by value · M<pkg>.<type> a defined map · P<pkg>.<type> pointer to a struct · S<pkg>.<type> slice of structs
}

type SType struct {
	Name   string   `json:"name"`
	Map    bool     `json:"map,omitempty"` // a defined map type instead of a struct
	Tagged bool     `json:"tagged"`
	Fields []SField `json:"fields,omitempty"`
}

type shippedCase struct {
	Pkgs [][]SType `json:"pkgs"` // package i may refer to packages j > i
	Gens []string  `json:"gens"`
	out  string
	have bool
}

func (c *shippedCase) files() map[string]string {
	files := map[string]string{}
	for i, ts := range c.Pkgs {
		var b strings.Builder
		imports := map[int]bool{}
		for _, t := range ts {
			for _, f := range t.Fields {
				if len(f.Ty) > 1 {
					var j int
					fmt.Sscanf(f.Ty[1:], "%d.", &j)
					if j != i {
						imports[j] = true
					}
				}
			}
		}
		fmt.Fprintf(&b, "package a%d\n\n", i)
		var is []int
		for j := range imports {
			is = append(is, j)
		}
		sort.Ints(is)
		for _, j := range is {
			fmt.Fprintf(&b, "import \"%s/a%d\"\n", genMod, j)
		}
		b.WriteString("\n")
		for _, t := range ts {
			if (i+len(t.Name)+len(ts))%3 == 0 {
				// a doc line that still opens with the name once the name has been taken off (`Status Status of the order`, as
				// generators of API types write them)
				fmt.Fprintf(&b, "// %s %s %s of package a%d.\n", t.Name, t.Name, t.Name, i)
			} else {
				fmt.Fprintf(&b, "// %s of package a%d.\n", t.Name, i)
			}
			if t.Tagged {
				b.WriteString("// +gengo:deepcopy\n// +gengo:runtimedoc\n")
			}
			if t.Map {
				fmt.Fprintf(&b, "type %s map[string]string\n\n", t.Name)
				continue
			}
			fmt.Fprintf(&b, "type %s struct {\n", t.Name)
			for _, f := range t.Fields {
				if (i+len(f.Name)+len(t.Fields))%2 == 0 {
					fmt.Fprintf(&b, "\t// %s %s documented\n\t%s %s\n", f.Name, f.Name, f.Name, c.goType(i, f.Ty))
				} else {
					fmt.Fprintf(&b, "\t// %s documented\n\t%s %s\n", f.Name, f.Name, c.goType(i, f.Ty))
				}
			}
			b.WriteString("}\n\n")
		}
		files[fmt.Sprintf("a%d/a.go", i)] = b.String()
	}
	return files
}

func (c *shippedCase) goType(self int, ty string) string {
	switch ty {
	case "p":
		return "int"
	case "s":
		return "[]int"
	case "m":
		return "map[string]int"
	}
	var j int
	var name string
	fmt.Sscanf(ty[1:], "%d.%s", &j, &name)
	q := name
	if j != self {
		q = fmt.Sprintf("a%d.%s", j, name)
	}
	switch ty[0] {
	case 'P':
		return "*" + q
	case 'S':
		return "[]" + q
	}
	return q
}

func (c *shippedCase) job(entry []int) *genJob {
	job := &genJob{Files: c.files(), Gens: c.Gens, Runs: 1}
	for _, i := range entry {
		job.Entry = append(job.Entry, fmt.Sprintf("./a%d", i))
	}
	return job
}

func (c *shippedCase) eval() {
	c.have = true
	var all []int
	for i := range c.Pkgs {
		all = append(all, i)
	}
	jobs := []*genJob{c.job(all)}
	for i := range c.Pkgs {
		jobs = append(jobs, c.job([]int{i}))
	}
	outs := runGenJobs(jobs, 4)
	tog := outs[0]
	if tog.Harness != "" || len(tog.ExecErr) == 0 || tog.ExecErr[0] != "" {
		c.out = "together: not generated (" + tog.Harness + strings.Join(tog.ExecErr, ";") + ")"
		return
	}
	for i := range c.Pkgs {
		al := outs[i+1]
		if al.Harness != "" || len(al.ExecErr) == 0 || al.ExecErr[0] != "" {
			c.out = fmt.Sprintf("a%d alone: not generated (%s%s) although the run on all packages succeeded", i, al.Harness, strings.Join(al.ExecErr, ";"))
			return
		}
		dir := fmt.Sprintf("a%d/", i)
		names := map[string]bool{}
		for rel := range tog.Generated[0] {
			if strings.HasPrefix(rel, dir) {
				names[rel] = true
			}
		}
		for rel := range al.Generated[0] {
			if strings.HasPrefix(rel, dir) {
				names[rel] = true
			}
		}
		for _, rel := range sortedKeys(names) {
			a, okA := al.Generated[0][rel]
			t, okT := tog.Generated[0][rel]
			if okA != okT || a != t {
				c.out = fmt.Sprintf("DIFF %s differs between the run on a%d alone and the run on all packages:\n--- alone\n%s\n--- together\n%s", rel, i, clip(a, 1500), clip(t, 1500))
				return
			}
		}
	}
	c.out = fmt.Sprintf("same files=%d", len(tog.Generated[0]))
}

func (c *shippedCase) Line() string { return "" }
func (c *shippedCase) Run() string {
	if !c.have {
		c.eval()
	}
	return strings.SplitN(c.out, "\n", 2)[0]
}
func (c *shippedCase) Oracle(out string) string {
	if strings.HasPrefix(c.out, "DIFF ") {
		return c.out[5:]
	}
	if strings.Contains(c.out, "although the run on all packages succeeded") {
		return c.out
	}
	return ""
}
func (c *shippedCase) Shrinks() []Case {
	var out []Case
	for i := range c.Pkgs {
		for k := range c.Pkgs[i] {
			for f := range c.Pkgs[i][k].Fields {
				n := &shippedCase{Gens: c.Gens}
				for _, ts := range c.Pkgs {
					var cp []SType
					for _, t := range ts {
						t.Fields = append([]SField{}, t.Fields...)
						cp = append(cp, t)
					}
					n.Pkgs = append(n.Pkgs, cp)
				}
				fs := n.Pkgs[i][k].Fields
				n.Pkgs[i][k].Fields = append(fs[:f:f], fs[f+1:]...)
				out = append(out, n)
			}
		}
	}
	if len(c.Gens) > 1 {
		for _, g := range c.Gens {
			out = append(out, &shippedCase{Pkgs: c.Pkgs, Gens: []string{g}})
		}
	}
	return out
}
func (c *shippedCase) Key() string {
	var b strings.Builder
	for i, ts := range c.Pkgs {
		fmt.Fprintf(&b, "a%d{", i)
		for _, t := range ts {
			fmt.Fprintf(&b, "%s[%v,%v]:", t.Name, t.Tagged, t.Map)
			for _, f := range t.Fields {
				b.WriteString(f.Ty + ",")
			}
			b.WriteString(" ")
		}
		b.WriteString("} ")
	}
	return b.String() + strings.Join(c.Gens, "+")
}
func (c *shippedCase) Classes() []string {
	m := map[string]bool{"gens:" + strings.Join(c.Gens, "+"): true, fmt.Sprintf("packages:%d", len(c.Pkgs)): true}
	if c.have {
		m["outcome:"+strings.SplitN(strings.SplitN(c.out, " ", 2)[0], ":", 2)[0]] = true
	}
	for i, ts := range c.Pkgs {
		for _, t := range ts {
			for _, f := range t.Fields {
				if len(f.Ty) > 1 {
					var j int
					fmt.Sscanf(f.Ty[1:], "%d.", &j)
					if j != i {
						m["cross-package:"+f.Ty[:1]] = true
					} else {
						m["same-package:"+f.Ty[:1]] = true
					}
				}
			}
		}
	}
	var cl []string
	for k := range m {
		cl = append(cl, k)
	}
	sort.Strings(cl)
	return cl
}
func (c *shippedCase) Nontrivial() bool {
	for _, k := range c.Classes() {
		if strings.HasPrefix(k, "cross-package:") {
			return true
		}
	}
	return false
}

func genShipped(r *Rng) *shippedCase {
	c := &shippedCase{Gens: Pick(r, [][]string{{"deepcopy"}, {"deepcopy"}, {"deepcopy", "runtimedoc"}, {"runtimedoc"}})}
	k := 2 + r.Intn(2)
	// declare types first (names), then fields referring to same-package and later-package types
	type ref struct {
		pkg  int
		name string
		isM  bool
	}
	var all []ref
	for i := 0; i < k; i++ {
		var ts []SType
		for n := 1 + r.Intn(3); n > 0; n-- {
			t := SType{Name: fmt.Sprintf("T%d", len(ts)), Tagged: r.Chance(65), Map: r.Chance(15)}
			ts = append(ts, t)
			all = append(all, ref{i, t.Name, t.Map})
		}
		if !ts[0].Tagged && !ts[0].Map {
			ts[0].Tagged = true
		}
		c.Pkgs = append(c.Pkgs, ts)
	}
	for i := range c.Pkgs {
		for ti := range c.Pkgs[i] {
			t := &c.Pkgs[i][ti]
			if t.Map {
				continue
			}
			for n, fi := 1+r.Intn(4), 0; fi < n; fi++ {
				f := SField{Name: fmt.Sprintf("F%d", fi)}
				var cands []ref
				for _, x := range all {
					// acyclic: later packages, or later types of the same package
					if x.pkg > i || (x.pkg == i && x.name > t.Name) {
						cands = append(cands, x)
					}
				}
				if len(cands) > 0 && r.Chance(65) {
					x := Pick(r, cands)
					kind := "L"
					if x.isM {
						kind = "M"
					} else if r.Chance(25) {
						kind = Pick(r, []string{"P", "S"})
					}
					f.Ty = fmt.Sprintf("%s%d.%s", kind, x.pkg, x.name)
				} else {
					f.Ty = Pick(r, []string{"p", "s", "m"})
				}
				t.Fields = append(t.Fields, f)
			}
		}
	}
	return c
}

// ---------------------------------------------------------------- C04: the shipped generators run again on their own result

type rerunCase struct {
	shippedCase
	Base  string `json:"base"` // OutputFileBaseName
	All   bool   `json:"all,omitempty"`
	class bool
}

const rerunForeignClass = "the second run differs from the first only in the statement deepcopy chooses for a field whose type is a struct or map type of ANOTHER package of the run that the run itself generates DeepCopy methods for (assignment on the first run, when those methods do not exist yet; a call of them from the second run on), and from the second run on nothing changes any more"

var (
	reAssignField = regexp.MustCompile(`^\s*out\.(\w+) = in\.(\w+)$`)
	reCallField   = regexp.MustCompile(`^\s*(?:in\.(\w+)\.DeepCopyInto\(&out\.(\w+)\)|out\.(\w+) = \*?in\.(\w+)\.DeepCopy\(\))$`)
)

// onlyForeignFieldStatements: runs 2, 3 and 4 wrote the same files, and run 2 differs from run 1 only in lines that turn
// `out.F = in.F` into a DeepCopy / DeepCopyInto call for a field F that, in that package, has a by-value type of another
// package of the run whose declaration is tagged
func (c *rerunCase) onlyForeignFieldStatements(out *genRunOut) bool {
	for run := 2; run < 4; run++ {
		if len(out.Generated[run]) != len(out.Generated[1]) {
			return false
		}
		for rel, t := range out.Generated[1] {
			if out.Generated[run][rel] != t {
				return false
			}
		}
	}
	if len(out.Generated[0]) != len(out.Generated[1]) {
		return false
	}
	changed := 0
	for rel, a := range out.Generated[0] {
		b, ok := out.Generated[1][rel]
		if !ok {
			return false
		}
		if a == b {
			continue
		}
		var pkg int
		if _, err := fmt.Sscanf(rel, "a%d/", &pkg); err != nil || pkg >= len(c.Pkgs) || !strings.HasSuffix(rel, ".deepcopy.go") {
			return false
		}
		la, lb := strings.Split(a, "\n"), strings.Split(b, "\n")
		if len(la) != len(lb) {
			return false
		}
		for i := range la {
			if la[i] == lb[i] {
				continue
			}
			ma, mb := reAssignField.FindStringSubmatch(la[i]), reCallField.FindStringSubmatch(lb[i])
			if ma == nil || mb == nil || ma[1] != ma[2] {
				return false
			}
			f := mb[1] + mb[3]
			if f != ma[1] || (mb[1] != mb[2]) || (mb[3] != mb[4]) {
				return false
			}
			if !c.foreignGeneratedField(out, pkg, f) {
				return false
			}
			changed++
		}
	}
	return changed > 0
}

// foreignGeneratedField: some struct of package pkg has a field of that name whose type is, by value, a struct or defined
// map of another package for which the run generated DeepCopy methods (tagged, or needed by a tagged type of its package)
func (c *rerunCase) foreignGeneratedField(out *genRunOut, pkg int, field string) bool {
	for _, t := range c.Pkgs[pkg] {
		for _, f := range t.Fields {
			if f.Name != field || len(f.Ty) < 2 || (f.Ty[0] != 'L' && f.Ty[0] != 'M') {
				continue
			}
			var j int
			var name string
			if _, err := fmt.Sscanf(strings.Replace(f.Ty[1:], ".", " ", 1), "%d %s", &j, &name); err != nil || j == pkg || j >= len(c.Pkgs) {
				continue
			}
			gen := out.Generated[1][fmt.Sprintf("a%d/%s.deepcopy.go", j, c.Base)]
			if strings.Contains(gen, "func (in *"+name+") DeepCopy") || strings.Contains(gen, "func (in "+name+") DeepCopy") {
				return true
			}
		}
	}
	return false
}

func (c *rerunCase) eval() {
	c.have = true
	job := c.job(nil)
	for i := range c.Pkgs {
		job.Entry = append(job.Entry, fmt.Sprintf("./a%d", i))
	}
	job.Runs, job.Base, job.All = 4, c.Base, c.All
	out := runGenJob(job)
	if out.Harness != "" || len(out.ExecErr) < 4 {
		c.out = "not run (" + out.Harness + strings.Join(out.ExecErr, ";") + ")"
		return
	}
	for run, e := range out.ExecErr {
		if e != "" {
			c.out = fmt.Sprintf("DIFF run %d failed: %s", run+1, e)
			return
		}
	}
	for run := 1; run < 4; run++ {
		names := map[string]bool{}
		for rel := range out.Generated[0] {
			names[rel] = true
		}
		for rel := range out.Generated[run] {
			names[rel] = true
		}
		for _, rel := range sortedKeys(names) {
			a, okA := out.Generated[0][rel]
			b, okB := out.Generated[run][rel]
			if okA != okB || a != b {
				c.out = fmt.Sprintf("DIFF run %d on the result of run %d changed %s (output file base name %q; %d bytes after run 1, %d after run %d)", run+1, run, rel, c.Base, len(a), len(b), run+1)
				if c.onlyForeignFieldStatements(out) {
					c.class = true
					c.out += " — " + rerunForeignClass
				}
				return
			}
		}
	}
	if len(c.Gens) > 1 {
		// the same generators handed over in the opposite order, on fresh sources: the first run writes the same files
		rev := c.job(nil)
		rev.Entry, rev.Runs, rev.Base, rev.All = job.Entry, 1, c.Base, c.All
		rev.Gens = append([]string{}, c.Gens...)
		slices.Reverse(rev.Gens)
		o2 := runGenJob(rev)
		if o2.Harness == "" && len(o2.ExecErr) == 1 && o2.ExecErr[0] == "" {
			names := map[string]bool{}
			for rel := range out.Generated[0] {
				names[rel] = true
			}
			for rel := range o2.Generated[0] {
				names[rel] = true
			}
			for _, rel := range sortedKeys(names) {
				if a, b := out.Generated[0][rel], o2.Generated[0][rel]; a != b {
					c.out = fmt.Sprintf("DIFF %s differs between a run that was handed the generators %v and one that was handed them in the opposite order (the same sources, output file base name %q):\n--- %v\n%s\n--- reversed\n%s", rel, c.Gens, c.Base, c.Gens, a, b)
					return
				}
			}
		}
	}
	c.out = fmt.Sprintf("same files=%d", len(out.Generated[0]))
}
func (c *rerunCase) Run() string {
	if !c.have {
		c.eval()
	}
	return strings.SplitN(c.out, "\n", 2)[0]
}
func (c *rerunCase) Oracle(out string) string {
	if strings.HasPrefix(c.out, "DIFF ") {
		return c.out[5:]
	}
	return ""
}
func (c *rerunCase) Shrinks() []Case {
	var out []Case
	for _, s := range c.shippedCase.Shrinks() {
		out = append(out, &rerunCase{shippedCase: *s.(*shippedCase), Base: c.Base, All: c.All})
	}
	return out
}
func (c *rerunCase) Key() string {
	if c.class {
		return "class: " + rerunForeignClass
	}
	return c.shippedCase.Key() + " base=" + c.Base + fmt.Sprint(" all=", c.All)
}
func (c *rerunCase) Classes() []string {
	return append(c.shippedCase.Classes(), "base:"+c.Base, fmt.Sprint("all:", c.All))
}

var rerunStream = &Stream{
	Name: "shipped-rerun", Quick: 18, Thorough: 150, New: func() Case { return &rerunCase{} },
	Gen: func(r *Rng, i int) Case {
		return &rerunCase{shippedCase: *genShipped(r), Base: []string{"zz_generated", "zz_gen", "generated", "zz_generated_v2"}[i%4], All: r.Bool()}
	},
	ShrinkBudget: 8, MaxShrinks: 2,
	Rule: "the type graphs of C05's shipped-generators stream run through the real deepcopy and runtimedoc generators four times in a row in one tree, each run on the result of the one before (fresh context each), with the output file base name zz_generated, zz_gen, generated or zz_generated_v2 and with and without All; oracle: every run succeeds and every generated file after runs 2, 3 and 4 is byte for byte what run 1 wrote",
}

var shippedStream = &Stream{
	Name: "shipped-generators", Quick: 24, Thorough: 200, New: func() Case { return &shippedCase{} },
	Gen:          func(r *Rng, i int) Case { return genShipped(r) },
	ShrinkBudget: 12, MaxShrinks: 3,
	Rule: "type graphs spread over 2–3 packages (1–3 struct or defined-map types each, tagged or not, fields of scalar / slice / map type and, by value, by pointer or in a slice, of types of the same and of the other packages) run through the deepcopy and runtimedoc generators that ship with gengo: once on all packages and, in other processes, once per package alone; oracle: every generated file of a package byte-identical in both; non-trivial = at least one field type of another package",
}
