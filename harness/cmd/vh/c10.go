package main

// C10 — value literals evaluate back to the value they were rendered from.

import (
	"bytes"
	"encoding/json"
	"fmt"
	"go/ast"
	"go/constant"
	"go/parser"
	"go/token"
	"go/types"
	"math"
	"os"
	"os/exec"
	"path/filepath"
	"reflect"
	"sort"
	"strconv"
	"strings"
	"time"
	"unicode/utf8"

	"github.com/octohelm/gengo/pkg/gengo"
	"github.com/octohelm/gengo/pkg/gengo/snippet"
	"github.com/octohelm/gengo/pkg/namer"
	reflectx "github.com/octohelm/x/reflect"
	"verif/harness/canon"
	fmix "verif/harness/fixtures/mix"
	futil2 "verif/harness/fixtures/other/util"
	futil "verif/harness/fixtures/util"
	fv1 "verif/harness/fixtures/v1"
)

var c10Roots = []struct {
	name string
	t    reflect.Type
}{
	{"util.In", reflect.TypeFor[futil.In]()},
	{"*util.In", reflect.TypeFor[*futil.In]()},
	{"[]util.In", reflect.TypeFor[[]futil.In]()},
	{"map[string]util.In", reflect.TypeFor[map[string]futil.In]()},
	{"util.Sub", reflect.TypeFor[futil.Sub]()},
	// exported fields (and a type) whose names start with non-ASCII upper-case letters
	{"util.Maß", reflect.TypeFor[futil.Maß]()},
	{"[]*util.Maß", reflect.TypeFor[[]*futil.Maß]()},
	{"struct{Ärmel int; Ωmega []string}", reflect.TypeFor[struct {
		Ärmel int
		Ωmega []string
		Öl    *futil.Name
	}]()},
	{"*int", reflect.TypeFor[*int]()},
	{"*string", reflect.TypeFor[*string]()},
	{"*util.Dur", reflect.TypeFor[*futil.Dur]()},
	{"util.Name", reflect.TypeFor[futil.Name]()},
	{"map[util.Dur]util.Sub", reflect.TypeFor[map[futil.Dur]futil.Sub]()},
	{"[]*util.Sub", reflect.TypeFor[[]*futil.Sub]()},
	{"[3]int", reflect.TypeFor[[3]int]()},
	{"float64", reflect.TypeFor[float64]()},
	{"int32", reflect.TypeFor[int32]()},
	{"uint8", reflect.TypeFor[uint8]()},
	{"util2.Wrap", reflect.TypeFor[futil2.Wrap]()},
	{"*util2.Wrap", reflect.TypeFor[*futil2.Wrap]()},
	{"map[v1.Kind][]v1.Item", reflect.TypeFor[map[fv1.Kind][]fv1.Item]()},
	{"*time.Duration", reflect.TypeFor[*time.Duration]()},
	{"[]float32", reflect.TypeFor[[]float32]()},
	{"map[int64]bool", reflect.TypeFor[map[int64]bool]()},
	{"*util.Sub", reflect.TypeFor[*futil.Sub]()},
	{"struct-literal-type", reflect.TypeFor[struct {
		A int
		B *futil.Name
		C []futil2.Dur
	}]()},
	// composites that differ only below a pointer, side by side in one value
	{"struct-pointer-composites", reflect.TypeFor[struct {
		Ints  []*int
		Strs  []*string
		Subs  map[string]*futil.Sub
		Items map[string]*fv1.Item
		Arr   [2]*futil.Name
		Arr2  [2]*futil2.Dur
	}]()},
	{"[]*string", reflect.TypeFor[[]*string]()},
	{"struct{Min, Max *int; A, B *string}", reflect.TypeFor[struct {
		Min, Max *int
		A, B     *string
		N1, N2   *futil.Name
	}]()},
	{"[]*bool", reflect.TypeFor[[]*bool]()},
	{"[3]*int", reflect.TypeFor[[3]*int]()},
	{"map[string]mix.Doc", reflect.TypeFor[map[string]fmix.Doc]()},
	{"[]mix.Doc", reflect.TypeFor[[]fmix.Doc]()},
	// entries whose literals mention, first, one or the other of two packages that want the same local name
	{"map[string]struct{A *util.Sub; B *util2.Wrap}", reflect.TypeFor[map[string]struct {
		A *futil.Sub
		B *futil2.Wrap
	}]()},
	{"map[string]*v1.Item", reflect.TypeFor[map[string]*fv1.Item]()},
	{"uint64", reflect.TypeFor[uint64]()},
	{"int64", reflect.TypeFor[int64]()},
	{"string", reflect.TypeFor[string]()},
	{"*bool", reflect.TypeFor[*bool]()},
	{"*float64", reflect.TypeFor[*float64]()},
	// maps with keys of every comparable kind of the domain, nested containers
	{"map[bool]string", reflect.TypeFor[map[bool]string]()},
	{"map[float64]int", reflect.TypeFor[map[float64]int]()},
	{"map[int32]string", reflect.TypeFor[map[int32]string]()},
	{"map[uint8]bool", reflect.TypeFor[map[uint8]bool]()},
	{"map[util.Name]int", reflect.TypeFor[map[futil.Name]int]()},
	{"map[[2]int]string", reflect.TypeFor[map[[2]int]string]()},
	{"map[struct{A int; B string}]int", reflect.TypeFor[map[struct {
		A int
		B string
	}]int]()},
	{"map[string]map[string][]int", reflect.TypeFor[map[string]map[string][]int]()},
	{"[][]int", reflect.TypeFor[[][]int]()},
	{"[2][2]string", reflect.TypeFor[[2][2]string]()},
	{"map[string][2]int", reflect.TypeFor[map[string][2]int]()},
	{"[]map[int]string", reflect.TypeFor[[]map[int]string]()},
}

var c10Strings = []string{"a", "b\"c", "x y", "`", "é", "line\nbreak", "tab\t", "\xff\xfe", "", "nul\x00", "back\\slash", "'", "日本", "%v @x", "crlf\r\nline\r\n", "cr\rmid", "two\nlines", "tail\n", "\ufeffbom", "sep\u2028x", "\a\b\f\v\x7f", "multi\nline `tick`\n"}
var c10Ints = []int64{0, 1, -1, 42, 97, 127, -128, 255, 1 << 31, -(1 << 31), math.MaxInt64, math.MinInt64, 65, 10, 39,
	// the edges of the table an int32 is looked up in (code points): last ASCII, DEL, C1, NBSP, soft hyphen, Latin-1 letter, the
	// surrogate block and its neighbours, U+FFFD and the non-characters after it, first astral, an emoji, the last code point and one beyond
	92, 34, 96, 0x7e, 0x80, 0x85, 0xa0, 0xa1, 0xad, 0xe9, 0x2028, 0xd7ff, 0xd800, 0xdbff, 0xdc00, 0xdfff, 0xe000, 0xfeff, 0xfffd, 0xfffe, 0xffff,
	0x10000, 0x1f600, 0xe0001, 0x10ffff, 0x110000, math.MaxInt32, -0xd800}

// codePointish: an integer drawn around the code-point ranges (any kind can hold some of them; int32 is printed as a rune)
func codePointish(r *Rng) int64 {
	switch r.Intn(5) {
	case 0:
		return 0xd800 + int64(r.Intn(0x800)) // surrogates
	case 1:
		return int64(r.Intn(0x110000))
	case 2:
		return int64(r.Intn(0x300))
	case 3:
		return Pick(r, c10Ints[15:])
	default:
		return 0x10ffff + int64(r.Intn(5)) - 2
	}
}

var c10Floats = []float64{0, 0.5, 1, 1e21, -2.25, 3, 1e-7, math.MaxFloat32, math.SmallestNonzeroFloat64, 0.1, -0.0, 123456789.125, math.MaxFloat64}

// VSpec: a value is regenerated from (root type, seed) — plain data for replays.
type vlitCase struct {
	Root  int    `json:"root"`
	Seed  uint64 `json:"seed"`
	Depth int    `json:"depth"`
	// oracle verdict of the compile-and-run batch, when this case was part of one
	runVerdict string
	unstable   string
	sampled    bool
	inBatch    bool
	out        string
	line       string
	have       bool
}

func fillValue(r *Rng, t reflect.Type, depth int) reflect.Value {
	v := reflect.New(t).Elem()
	if r.Chance(18) {
		return v // zero
	}
	switch t.Kind() {
	case reflect.Int, reflect.Int8, reflect.Int16, reflect.Int32, reflect.Int64:
		x := Pick(r, c10Ints)
		if r.Chance(25) {
			x = codePointish(r)
		}
		if v.OverflowInt(x) {
			x = x % 100
		}
		v.SetInt(x)
	case reflect.Uint8, reflect.Uint, reflect.Uint64, reflect.Uint16, reflect.Uint32:
		x := uint64(Pick(r, c10Ints))
		if r.Chance(10) {
			x = math.MaxUint64
		}
		if v.OverflowUint(x) {
			x = x % 200
		}
		v.SetUint(x)
	case reflect.Float64:
		v.SetFloat(Pick(r, c10Floats))
	case reflect.Float32:
		v.SetFloat(float64(float32(Pick(r, c10Floats[:9]))))
	case reflect.Bool:
		v.SetBool(r.Bool())
	case reflect.String:
		v.SetString(Pick(r, c10Strings))
	case reflect.Ptr:
		if depth > 0 {
			p := reflect.New(t.Elem())
			p.Elem().Set(fillValue(r, t.Elem(), depth-1))
			v.Set(p)
		}
	case reflect.Struct:
		for i := 0; i < t.NumField(); i++ {
			if t.Field(i).IsExported() && depth > 0 && r.Chance(60) {
				v.Field(i).Set(fillValue(r, t.Field(i).Type, depth-1))
			}
		}
		// two pointer fields of one type sharing one pointer
		for i := 0; i < t.NumField(); i++ {
			for j := i + 1; j < t.NumField(); j++ {
				if t.Field(i).IsExported() && t.Field(j).IsExported() && t.Field(i).Type.Kind() == reflect.Ptr && t.Field(i).Type == t.Field(j).Type && !v.Field(i).IsNil() && r.Chance(35) {
					v.Field(j).Set(v.Field(i))
				}
			}
		}
	case reflect.Slice:
		if depth > 0 {
			n := r.Intn(3)
			s := reflect.MakeSlice(t, n, n)
			for i := 0; i < n; i++ {
				s.Index(i).Set(fillValue(r, t.Elem(), depth-1))
			}
			if t.Elem().Kind() == reflect.Ptr && n >= 2 && r.Chance(40) {
				// one and the same pointer in several positions: what it points to is rendered at each of them
				for i := 1; i < n; i++ {
					if r.Chance(70) {
						s.Index(i).Set(s.Index(0))
					}
				}
			}
			if n > 0 || r.Bool() {
				v.Set(s) // sometimes an empty non-nil slice
			}
		}
	case reflect.Array:
		for i := 0; i < t.Len(); i++ {
			v.Index(i).Set(fillValue(r, t.Elem(), depth-1))
		}
		if t.Elem().Kind() == reflect.Ptr && t.Len() >= 2 && r.Chance(40) {
			for i := 1; i < t.Len(); i++ {
				v.Index(i).Set(v.Index(0))
			}
		}
	case reflect.Map:
		if depth > 0 {
			n := r.Intn(4)
			m := reflect.MakeMap(t)
			for i := 0; i < n; i++ {
				m.SetMapIndex(fillValue(r, t.Key(), depth-1), fillValue(r, t.Elem(), depth-1))
			}
			if n > 0 || r.Bool() {
				v.Set(m)
			}
		}
	}
	return v
}

func (c *vlitCase) value() reflect.Value {
	return fillValue(NewRng(c.Seed), c10Roots[c.Root].t, c.Depth)
}

// leafLit: the text of a scalar or string leaf is what the real dumper prints for that leaf on its own
// (strconv.Quote, %d, FormatFloat, QuoteRune, FormatBool are leaf printers the model takes as given;
// their contract — the literal evaluates back to the value — is what the compile-and-run oracle checks).
func leafLit(rv reflect.Value) string {
	return newVWriter().render(snippet.Value(rv.Interface()))
}

const c10Self = "example.com/target"

type vwriter struct {
	b  *bytes.Buffer
	tr namer.ImportTracker
	w  gengo.SnippetWriter
}

func newVWriter() *vwriter {
	v := &vwriter{b: bytes.NewBuffer(nil), tr: namer.NewDefaultImportTracker()}
	v.w = gengo.NewSnippetWriter(v.b, namer.NameSystems{"raw": namer.NewRawNamer(c10Self, v.tr)})
	return v
}

func (v *vwriter) render(s snippet.Snippet) string {
	v.b.Reset()
	v.w.Render(s)
	return v.b.String()
}

// encValue: the typed value tree for the model; type texts come from the writer that rendered the
// value (so that they carry the import names that rendering bound).
func encValue(w *vwriter, rv reflect.Value, out *[]string) {
	t := rv.Type()
	ty := func() string { return hx(w.render(snippet.ID(t))) }
	emp := b01(reflectx.IsEmptyValue(rv))
	switch t.Kind() {
	case reflect.Ptr:
		if rv.IsNil() {
			*out = append(*out, "nilptr")
			return
		}
		*out = append(*out, "ptr")
		encValue(w, rv.Elem(), out)
	case reflect.Struct:
		*out = append(*out, "struct", ty(), fmt.Sprint(t.NumField()))
		for i := 0; i < t.NumField(); i++ {
			ex := ast.IsExported(t.Field(i).Name)
			*out = append(*out, hx(t.Field(i).Name), b01(ex))
			if ex {
				encValue(w, rv.Field(i), out)
			} else {
				*out = append(*out, "leaf", "b:int", hx("int"), hx("0"), "1")
			}
		}
	case reflect.Map:
		keys := rv.MapKeys()
		// a fixed presentation order for replays; the model sorts by key literal itself
		sort.Slice(keys, func(i, j int) bool { return canon.Value(keys[i]) > canon.Value(keys[j]) })
		*out = append(*out, "map", ty(), fmt.Sprint(len(keys)))
		for _, k := range keys {
			encValue(w, k, out)
			encValue(w, rv.MapIndex(k), out)
		}
	case reflect.Slice, reflect.Array:
		*out = append(*out, "seq", ty(), fmt.Sprint(rv.Len()))
		for i := 0; i < rv.Len(); i++ {
			encValue(w, rv.Index(i), out)
		}
	case reflect.String:
		*out = append(*out, "leaf", "s", ty(), hx(leafLit(rv)), emp)
	case reflect.Interface:
		*out = append(*out, "iface")
	default:
		*out = append(*out, "leaf", "b:"+t.Kind().String(), ty(), hx(leafLit(rv)), emp)
	}
}

func (c *vlitCase) Run() string {
	if c.have {
		return c.out
	}
	c.have = true
	v := c.value()
	w := newVWriter()
	sn := snippet.Value(v.Interface()) // one snippet object: a generator may keep it and render it into several files
	c.out = guard(func() string { return "ok " + hx(w.render(sn)) })
	imps := showImports(w.tr.Imports())
	c.line = guard(func() string {
		var toks []string
		encValue(w, v, &toks)
		return "vlit " + strings.Join(toks, " ")
	})
	if c.out != "panic" {
		c.out += " imports " + imps
		// the text and the import names must not depend on the order in which a map presents its entries: the same value
		// rendered again through fresh writers gives the same bytes
		for i := 0; i < 6; i++ {
			w2 := newVWriter()
			// odd rounds: the very snippet object rendered above, into another file (its own writer, namer and import table)
			again := guard(func() string {
				if i%2 == 1 {
					return "ok " + hx(w2.render(sn))
				}
				return "ok " + hx(w2.render(snippet.Value(v.Interface())))
			})
			if again != "panic" {
				again += " imports " + showImports(w2.tr.Imports())
			}
			if again != c.out {
				c.unstable = fmt.Sprintf("the same value rendered twice gave different texts or import names: %s / %s", clip(unhx(strings.Fields(c.out)[1]), 300)+" "+c.out[strings.Index(c.out, " imports "):], clip(unhx(strings.Fields(again + " x")[1]), 300))
				break
			}
		}
	}
	return c.out
}

func (c *vlitCase) Line() string { c.Run(); return c.line }
func (c *vlitCase) CanonModel(m string) string {
	// the model prints the text; the import set is the real tracker's (C03/C11 judge it)
	if strings.HasPrefix(m, "ok ") && strings.HasPrefix(c.out, "ok ") {
		if i := strings.Index(c.out, " imports "); i >= 0 {
			return m + c.out[i:]
		}
	}
	return m
}

func (c *vlitCase) Oracle(out string) string {
	if out == "panic" {
		return "rendering a value of the domain panicked"
	}
	if c.unstable != "" {
		return c.unstable
	}
	text := unhx(strings.Fields(out)[1])
	// every case: the text is a Go expression
	if _, err := parser.ParseExpr(text); err != nil {
		return fmt.Sprintf("the rendered literal is not a Go expression (%v): %s", err, clip(text, 300))
	}
	if !c.sampled && !c.inBatch {
		c.ensureSampled() // evaluated on its own (replay, shrinking): compile this one literal
	}
	if c.sampled {
		return c.runVerdict
	}
	return ""
}

func (c *vlitCase) Shrinks() []Case {
	var out []Case
	if c.Depth > 0 {
		out = append(out, &vlitCase{Root: c.Root, Seed: c.Seed, Depth: c.Depth - 1})
	}
	// other seeds at the same depth that give smaller renderings are not searched: values are
	// regenerated from the seed, the shrink is by depth and by root
	return out
}
func (c *vlitCase) Key() string {
	return fmt.Sprintf("%s seed=%d depth=%d", c10Roots[c.Root].name, c.Seed, c.Depth)
}
func (c *vlitCase) Classes() []string {
	cl := []string{"root:" + c10Roots[c.Root].name}
	v := c.value()
	flags := map[string]bool{}
	var walk func(rv reflect.Value, d int)
	walk = func(rv reflect.Value, d int) {
		switch rv.Kind() {
		case reflect.Ptr:
			if rv.IsNil() {
				flags["nil-pointer"] = true
				return
			}
			k := rv.Elem().Kind()
			switch {
			case k == reflect.String:
				flags["pointer-to-string"] = true
			case k == reflect.Struct:
				flags["pointer-to-struct"] = true
				if rv.Elem().IsZero() {
					flags["pointer-to-zero-struct"] = true
				}
			case rv.Elem().Type().PkgPath() != "":
				flags["pointer-to-named-scalar"] = true
			default:
				flags["pointer-to-scalar"] = true
			}
			walk(rv.Elem(), d+1)
		case reflect.Struct:
			for i := 0; i < rv.NumField(); i++ {
				if rv.Type().Field(i).IsExported() {
					walk(rv.Field(i), d+1)
				}
			}
		case reflect.Map:
			if rv.Len() > 1 {
				flags["map-with-several-keys"] = true
			}
			if rv.Type().Key().Kind() != reflect.String {
				flags["non-string-map-key"] = true
			}
			for _, k := range rv.MapKeys() {
				if rv.MapIndex(k).Kind() == reflect.Struct && rv.MapIndex(k).IsZero() && d > 0 {
					flags["zero-struct-map-value"] = true
				}
				walk(rv.MapIndex(k), d+1)
			}
		case reflect.Slice, reflect.Array:
			for i := 0; i < rv.Len(); i++ {
				walk(rv.Index(i), d+1)
			}
		case reflect.String:
			if strings.ContainsAny(rv.String(), "\"`\n\\") || !strings.EqualFold(rv.String(), strings.ToValidUTF8(rv.String(), "")) {
				flags["string-needing-escapes"] = true
			}
		case reflect.Float32, reflect.Float64:
			flags["float"] = true
		}
	}
	walk(v, 0)
	for f := range flags {
		cl = append(cl, f)
	}
	sort.Strings(cl)
	return cl
}
func (c *vlitCase) Nontrivial() bool { return !c.value().IsZero() }

// ---------------------------------------------------------------- compile and run

// runLiteralBatch renders the cases through ONE writer (so that a single import block serves them
// all), writes `var vN T = <literal>` declarations into a program that prints canon.Value of each,
// builds and runs it, and compares with canon.Value of the original values.
func runLiteralBatch(cases []*vlitCase) {
	for _, c := range cases {
		c.sampled = true
	}
	w := newVWriter()
	type item struct {
		c    *vlitCase
		ty   string
		lit  string
		want string
		ok   bool
	}
	var items []item
	for _, c := range cases {
		v := c.value()
		it := item{c: c, want: canon.Value(v)}
		func() {
			defer func() {
				if e := recover(); e != nil {
					c.runVerdict = fmt.Sprintf("rendering panicked: %v", e)
				}
			}()
			it.ty = w.render(snippet.ID(v.Type()))
			it.lit = w.render(snippet.Value(v.Interface()))
			it.ok = true
		}()
		if it.ok {
			if _, err := parser.ParseExpr(it.lit); err != nil {
				c.runVerdict = fmt.Sprintf("the rendered literal is not a Go expression (%v): %s", err, clip(it.lit, 300))
				it.ok = false
			}
		}
		items = append(items, it)
	}
	dir, err := os.MkdirTemp("", "vhlit")
	if err != nil {
		return
	}
	defer os.RemoveAll(dir)
	var src bytes.Buffer
	src.WriteString("package main\n\nimport (\n\t\"fmt\"\n\t\"reflect\"\n\n\t\"verif/harness/canon\"\n")
	paths := []string{}
	for p := range w.tr.Imports() {
		paths = append(paths, p)
	}
	sort.Strings(paths)
	for _, p := range paths {
		fmt.Fprintf(&src, "\t%s %q\n", w.tr.Imports()[p], p)
	}
	src.WriteString(")\n\n")
	for i, it := range items {
		if it.ok {
			fmt.Fprintf(&src, "var v%d %s = %s\n\n", i, it.ty, it.lit)
		}
	}
	src.WriteString("func main() {\n")
	for i, it := range items {
		if it.ok {
			fmt.Fprintf(&src, "\tfmt.Printf(\"%d %%s\\n\", canon.Value(reflect.ValueOf(&v%d).Elem()))\n", i, i)
		}
	}
	for _, p := range paths {
		_ = p
	}
	src.WriteString("}\n")
	os.WriteFile(filepath.Join(dir, "main.go"), src.Bytes(), 0o644)
	root := verifRoot()
	repo := os.Getenv("VERIF_REPO")
	if repo == "" {
		repo = "/repo"
	}
	gomod := "module gen\n\ngo 1.24.2\n\nrequire (\n\tverif/harness v0.0.0\n\tgithub.com/octohelm/gengo v0.0.0\n)\n\nreplace verif/harness => " + root + "/harness\n\nreplace github.com/octohelm/gengo => " + repo + "\n"
	os.WriteFile(filepath.Join(dir, "go.mod"), []byte(gomod), 0o644)
	if b, err := os.ReadFile(filepath.Join(root, "harness/go.sum")); err == nil {
		os.WriteFile(filepath.Join(dir, "go.sum"), b, 0o644)
	}
	cmd := exec.Command("go", "build", "-o", "prog", ".")
	cmd.Dir = dir
	cmd.Env = append(os.Environ(), "GOFLAGS=-mod=mod")
	if outp, err := cmd.CombinedOutput(); err != nil {
		// attribute the compile errors to their declarations
		lines := strings.Split(string(src.Bytes()), "\n")
		attributed := false
		for _, el := range strings.Split(string(outp), "\n") {
			var ln, col int
			if n, _ := fmt.Sscanf(strings.TrimPrefix(el, "./"), "main.go:%d:%d:", &ln, &col); n >= 1 {
				// find the declaration this line belongs to
				for k := ln - 1; k >= 0 && k < len(lines); k-- {
					var idx int
					if n, _ := fmt.Sscanf(lines[k], "var v%d ", &idx); n == 1 {
						if idx < len(items) && items[idx].c.runVerdict == "" {
							items[idx].c.runVerdict = "the rendered literal does not compile at the value's type: " + strings.TrimSpace(el[strings.Index(el, ":")+1:]) + " — " + clip(items[idx].lit, 200)
							attributed = true
						}
						break
					}
				}
			}
		}
		if !attributed {
			for _, it := range items {
				if it.c.runVerdict == "" {
					it.c.sampled = false // a build problem of the harness itself: no verdict
				}
			}
			fmt.Fprintln(os.Stderr, "c10: generated program did not build:", clip(string(outp), 600))
		} else {
			// the other declarations of the batch are not judged by this build
			for _, it := range items {
				if it.c.runVerdict == "" {
					it.c.sampled = false
				}
			}
		}
		return
	}
	run := exec.Command(filepath.Join(dir, "prog"))
	run.Dir = dir
	done := make(chan struct{})
	var outp []byte
	go func() { outp, _ = run.Output(); close(done) }()
	select {
	case <-done:
	case <-time.After(60 * time.Second):
		run.Process.Kill()
	}
	got := map[int]string{}
	for _, l := range strings.Split(string(outp), "\n") {
		if i := strings.Index(l, " "); i > 0 {
			if n, err := strconv.Atoi(l[:i]); err == nil {
				got[n] = l[i+1:]
			}
		}
	}
	for i, it := range items {
		if !it.ok {
			continue
		}
		g, ok := got[i]
		switch {
		case !ok:
			it.c.sampled = false
		case g != it.want:
			it.c.runVerdict = fmt.Sprintf("the rendered literal evaluates to %s, the value is %s — literal: %s", clip(g, 300), clip(it.want, 300), clip(it.lit, 200))
		}
	}
}

func vlitBatch(tier string) func(cases []Case) []string {
	return func(cases []Case) []string {
		res := make([]string, len(cases))
		var all []*vlitCase
		for i, c := range cases {
			vc := c.(*vlitCase)
			vc.inBatch = true
			res[i] = vc.Run()
			all = append(all, vc)
		}
		// compile-and-run: quick — the first 300 cases; thorough — every case, 300 per program
		n := len(all)
		if tier != "thorough" && n > 300 {
			n = 300
		}
		sem := make(chan struct{}, 6)
		done := make(chan struct{})
		k := 0
		for s := 0; s < n; s += 300 {
			k++
			go func(s int) {
				sem <- struct{}{}
				runLiteralBatch(all[s:min(s+300, n)])
				<-sem
				done <- struct{}{}
			}(s)
		}
		for i := 0; i < k; i++ {
			<-done
		}
		return res
	}
}

// single-case evaluation (replay, shrinking) compiles the one literal
func (c *vlitCase) ensureSampled() {
	if !c.sampled {
		runLiteralBatch([]*vlitCase{c})
	}
}

// ---------------------------------------------------------------- leaves: every scalar printer, evaluated in-process

// leafCase: one scalar value (kind + text form), rendered with snippet.Value and evaluated back with go/types.
type leafCase struct {
	Kind string `json:"kind"` // string | int8 … uint64 | float32 | float64 | bool
	Hex  string `json:"hex,omitempty"`
	I    int64  `json:"i,omitempty"`
	U    uint64 `json:"u,omitempty"`
	F    string `json:"f,omitempty"` // float bits, hex
}

func (c *leafCase) value() any {
	switch c.Kind {
	case "string":
		return unhx(c.Hex)
	case "int":
		return int(c.I)
	case "int8":
		return int8(c.I)
	case "int16":
		return int16(c.I)
	case "int32":
		return int32(c.I)
	case "int64":
		return c.I
	case "uint":
		return uint(c.U)
	case "uint8":
		return uint8(c.U)
	case "uint16":
		return uint16(c.U)
	case "uint32":
		return uint32(c.U)
	case "uint64":
		return c.U
	case "float32":
		b, _ := strconv.ParseUint(c.F, 16, 64)
		return math.Float32frombits(uint32(b))
	case "float64":
		b, _ := strconv.ParseUint(c.F, 16, 64)
		return math.Float64frombits(b)
	case "bool":
		return c.I != 0
	}
	return nil
}

func (c *leafCase) Line() string { return "" }
func (c *leafCase) Run() string {
	return guard(func() string {
		w := newVWriter()
		return "ok " + hx(w.render(snippet.Value(c.value())))
	})
}

func (c *leafCase) Oracle(out string) string {
	if out == "panic" {
		return "rendering a scalar panicked"
	}
	lit := unhx(strings.Fields(out + " ")[1])
	v := c.value()
	// the literal, converted to the value's type as `var x T = <lit>` does, must be a constant equal to the value
	tv, err := types.Eval(token.NewFileSet(), nil, token.NoPos, c.Kind+"("+lit+")")
	if err != nil {
		return fmt.Sprintf("the literal %s rendered for the %s %#v does not evaluate as a constant of that type: %v", clip(lit, 200), c.Kind, v, err)
	}
	if tv.Value == nil {
		return fmt.Sprintf("the literal %s rendered for the %s %#v is not a constant expression", clip(lit, 200), c.Kind, v)
	}
	same := false
	switch x := v.(type) {
	case string:
		same = tv.Value.Kind() == constant.String && constant.StringVal(tv.Value) == x
	case bool:
		same = tv.Value.Kind() == constant.Bool && constant.BoolVal(tv.Value) == x
	case float32:
		f, _ := constant.Float32Val(tv.Value)
		same = f == x || (x != x && f != f)
	case float64:
		f, _ := constant.Float64Val(tv.Value)
		same = f == x
	default:
		rv := reflect.ValueOf(v)
		if rv.CanInt() {
			i, ok := constant.Int64Val(constant.ToInt(tv.Value))
			same = ok && i == rv.Int()
		} else {
			u, ok := constant.Uint64Val(constant.ToInt(tv.Value))
			same = ok && u == rv.Uint()
		}
	}
	if !same {
		return fmt.Sprintf("the literal %s evaluates to %s, the %s value is %#v", clip(lit, 200), clip(tv.Value.ExactString(), 200), c.Kind, v)
	}
	return ""
}
func (c *leafCase) Shrinks() []Case {
	var out []Case
	if c.Kind == "string" {
		b := []byte(unhx(c.Hex))
		for i := range b {
			n := append(append([]byte{}, b[:i]...), b[i+1:]...)
			out = append(out, &leafCase{Kind: "string", Hex: hx(string(n))})
		}
	}
	return out
}
func (c *leafCase) Key() string { b, _ := json.Marshal(c); return string(b) }
func (c *leafCase) Classes() []string {
	cl := []string{"kind:" + c.Kind}
	if c.Kind == "string" {
		s := unhx(c.Hex)
		for _, f := range []struct{ n, chars string }{{"cr", "\r"}, {"lf", "\n"}, {"quote", "\""}, {"backquote", "`"}, {"backslash", "\\"}, {"control", "\x00\a\b\f\v\x7f"}} {
			if strings.ContainsAny(s, f.chars) {
				cl = append(cl, "string:"+f.n)
			}
		}
		if !utf8.ValidString(s) {
			cl = append(cl, "string:invalid-utf8")
		}
	}
	return cl
}
func (c *leafCase) Nontrivial() bool { return c.Kind != "bool" }

var c10LeafAlphabet = []string{"a", "b", " ", "\"", "`", "\\", "\n", "\r", "\r\n", "\t", "\x00", "\x7f", "é", "日", "\ufeff", "\u2028", "\u0085", "\xff", "\xc3", "'", "%", "@", "$", "{", "\U0001F600"}

func genScalarLeaf(r *Rng) *leafCase {
	switch r.Intn(10) {
	case 0, 1, 2, 3, 4:
		var b strings.Builder
		for n := r.Intn(9); n > 0; n-- {
			b.WriteString(Pick(r, c10LeafAlphabet))
		}
		return &leafCase{Kind: "string", Hex: hx(b.String())}
	case 5, 6:
		k := Pick(r, []string{"int", "int8", "int16", "int32", "int64"})
		bits := map[string]uint{"int": 64, "int8": 8, "int16": 16, "int32": 32, "int64": 64}[k]
		v := int64(r.U64()) >> (64 - bits)
		switch r.Intn(5) {
		case 0:
			v = -(1 << (bits - 1))
		case 1:
			v = 1<<(bits-1) - 1
		case 2:
			v = int64(r.Intn(300)) - 150
		case 3:
			v = codePointish(r)
		}
		v = v << (64 - bits) >> (64 - bits)
		return &leafCase{Kind: k, I: v}
	case 7:
		k := Pick(r, []string{"uint", "uint8", "uint16", "uint32", "uint64"})
		bits := map[string]uint{"uint": 64, "uint8": 8, "uint16": 16, "uint32": 32, "uint64": 64}[k]
		v := r.U64() >> (64 - bits)
		if r.Chance(25) {
			v = ^uint64(0) >> (64 - bits)
		}
		return &leafCase{Kind: k, U: v}
	case 8:
		if r.Chance(50) {
			f := Pick(r, []float32{0, 1, -1, 0.1, math.MaxFloat32, math.SmallestNonzeroFloat32, 1e10, 16777216, 16777217, 1e-10, 3.4e38})
			if r.Chance(50) {
				f = math.Float32frombits(uint32(r.U64()))
				if f != f || math.IsInf(float64(f), 0) {
					f = 1.5
				}
			}
			return &leafCase{Kind: "float32", F: strconv.FormatUint(uint64(math.Float32bits(f)), 16)}
		}
		f := Pick(r, c10Floats)
		if r.Chance(60) {
			f = math.Float64frombits(r.U64())
			if f != f || math.IsInf(f, 0) {
				f = 2.5
			}
		}
		return &leafCase{Kind: "float64", F: strconv.FormatUint(math.Float64bits(f), 16)}
	default:
		return &leafCase{Kind: "bool", I: int64(r.Intn(2))}
	}
}

type vlitCaseSingle struct{ *vlitCase }

func init() {
	mk := func() *Stream {
		st := &Stream{
			Name: "values", Quick: 4000, Thorough: 30000,
			New: func() Case { return &vlitCase{} },
			Gen: func(r *Rng, i int) Case {
				return &vlitCase{Root: r.Intn(len(c10Roots)), Seed: r.U64(), Depth: 1 + r.Intn(4)}
			},
			ShrinkBudget: 6, MaxShrinks: 5,
			Rule: "random values (depth ≤ 4) of 52 root types (among them structs whose exported field names start with non-ASCII upper-case letters) (maps keyed by bool, float64, int32, uint8, a named string, [2]int and a struct among them, nested maps, slices of slices, arrays of arrays) (one of them holding composites that differ only below a pointer side by side) built with reflect around fixture named types of three packages, time.Duration and an unnamed struct type: structs with exported and unexported fields, single-level pointers to scalars / strings / named scalars / structs (zero ones included; sometimes one and the same pointer in several elements of a slice or array, or in two fields), slices, arrays, maps with string / int / named keys, strings with quotes, newlines, backquotes, NUL and non-UTF-8 bytes, extreme integers, runes, float32/float64 edge values; rendered with snippet.Value through a real writer, then six more times through fresh writers — three of them with the very snippet object of the first rendering — (same bytes, same import names registered with each writer: map order must not show, and a snippet kept by a generator renders into a second file as into the first); compared with the model byte for byte (leaf literals and type texts supplied); oracle: every literal parses as a Go expression, and a sample (quick: 300, thorough: all) is compiled as `var vN T = <literal>` with the registered imports and run, canon.Value of the result compared with canon.Value of the original (nil = empty, omitted fields zero)",
		}
		return st
	}
	st := mk()
	st.BatchRun = func(cases []Case) []string {
		tier := os.Getenv("VH_TIER")
		return vlitBatch(tier)(cases)
	}
	leaves := &Stream{
		Name: "leaves", Quick: 6000, Thorough: 60000,
		New:          func() Case { return &leafCase{} },
		Gen:          func(r *Rng, i int) Case { return genScalarLeaf(r) },
		ShrinkBudget: 40, MaxShrinks: 5,
		Rule: "scalar leaves on their own: strings of 0–8 pieces over an alphabet of 25 (quotes, backquote, backslash, LF, CR, CRLF, TAB, NUL, DEL, BOM, U+2028, U+0085, invalid UTF-8 bytes, astral rune, %, @, $), every integer kind at its extremes and at random, float32/float64 edge values and random bit patterns (finite), booleans; rendered with snippet.Value; oracle, in-process on every case: `T(<literal>)` evaluated by go/types is a constant equal to the value (strings byte for byte)",
	}
	register(&Property{ID: "C10", Streams: []*Stream{st, leaves}})
	_ = json.Marshal
}
