package main

// C19 — camelcase.Split is total and lossless; the six converters never fail.

import (
	"bytes"
	"encoding/hex"
	"encoding/json"
	"fmt"
	"os"
	"strings"
	"sync"
	"time"
	"unicode"
	"unicode/utf8"

	"github.com/octohelm/gengo/pkg/camelcase"
	"golang.org/x/text/cases"
	"golang.org/x/text/language"
)

func runeClasses(s string) string {
	if !utf8.ValidString(s) {
		return "-"
	}
	var b strings.Builder
	for _, r := range s {
		c := 0
		if unicode.IsLower(r) {
			c |= 1
		}
		if unicode.IsUpper(r) {
			c |= 2
		}
		if unicode.IsDigit(r) {
			c |= 4
		}
		b.WriteByte(byte('0' + c))
	}
	if b.Len() == 0 {
		return "-"
	}
	return b.String()
}

type splitCase struct {
	S []byte // the input as bytes (may be invalid UTF-8)
}

func (c splitCase) str() string  { return string(c.S) }
func (c splitCase) Line() string { return "split " + hx(c.str()) + " " + runeClasses(c.str()) }
func (c splitCase) Run() string {
	return guard(func() string {
		ws := camelcase.Split(c.str())
		return "ok " + hxs(ws, "|")
	})
}

func (c splitCase) Oracle(out string) string {
	if out == "panic" {
		return "Split panicked"
	}
	ws := strings.Split(strings.TrimPrefix(out, "ok "), "|")
	if out == "ok " {
		ws = nil
	}
	var cat strings.Builder
	for _, w := range ws {
		if w == "-" || w == "" {
			if !(len(ws) == 1 && !utf8.Valid(c.S)) {
				return "empty word in the result"
			}
		}
		cat.WriteString(unhx(w))
	}
	if cat.String() != c.str() {
		return "concatenation of the words differs from the input"
	}
	if !utf8.Valid(c.S) && len(ws) != 1 {
		return "invalid UTF-8 input not returned whole"
	}
	return ""
}

func shrinkBytes(b []byte) [][]byte {
	var out [][]byte
	if len(b) == 0 {
		return nil
	}
	// drop one rune (or byte) at each position; then simplify runes
	for i := 0; i < len(b); {
		_, n := utf8.DecodeRune(b[i:])
		nb := append(append([]byte{}, b[:i]...), b[i+n:]...)
		out = append(out, nb)
		i += n
	}
	for i := 0; i < len(b); {
		r, n := utf8.DecodeRune(b[i:])
		var repl rune = -1
		switch {
		case r == utf8.RuneError && n == 1:
		case r >= 0x80 && unicode.IsUpper(r), r > 'A' && r <= 'Z':
			repl = 'A'
		case r >= 0x80 && unicode.IsLower(r), r > 'a' && r <= 'z':
			repl = 'a'
		case r >= 0x80 && unicode.IsDigit(r), r > '0' && r <= '9':
			repl = '0'
		case r >= 0x80:
			repl = '_'
		}
		if repl >= 0 {
			nb := append(append(append([]byte{}, b[:i]...), string(repl)...), b[i+n:]...)
			out = append(out, nb)
		}
		i += n
	}
	return out
}

func (c splitCase) Shrinks() []Case {
	var out []Case
	for _, b := range shrinkBytes(c.S) {
		out = append(out, splitCase{b})
	}
	return out
}

func (c splitCase) Key() string { return hx(c.str()) }

func strClasses(s string) []string {
	var cl []string
	if !utf8.ValidString(s) {
		return []string{"invalid-utf8"}
	}
	if s == "" {
		return []string{"empty"}
	}
	r0, _ := utf8.DecodeRuneInString(s)
	switch {
	case unicode.IsLower(r0):
		cl = append(cl, "starts:lower")
	case unicode.IsUpper(r0):
		cl = append(cl, "starts:upper")
	case unicode.IsDigit(r0):
		cl = append(cl, "starts:digit")
	default:
		cl = append(cl, "starts:other")
	}
	for _, r := range s {
		if r >= 0x80 {
			cl = append(cl, "non-ascii")
			break
		}
	}
	return cl
}

func (c splitCase) Classes() []string { return strClasses(c.str()) }
func (c splitCase) Nontrivial() bool {
	// at least two classes of runes or invalid bytes
	s := c.str()
	if !utf8.ValidString(s) {
		return true
	}
	return len(runeSet(runeClasses(s))) >= 2
}

func runeSet(s string) map[rune]bool {
	m := map[rune]bool{}
	for _, r := range s {
		m[r] = true
	}
	return m
}

// ---- converters

var converters = []struct {
	name   string
	linker string
	f      func(string) string
	trans  func(w string, i int) string
}{
	{"LowerSnakeCase", "_", camelcase.LowerSnakeCase, func(w string, i int) string { return strings.ToLower(w) }},
	{"UpperSnakeCase", "_", camelcase.UpperSnakeCase, func(w string, i int) string { return strings.ToUpper(w) }},
	{"LowerKebabCase", "-", camelcase.LowerKebabCase, func(w string, i int) string { return strings.ToLower(w) }},
	{"UpperKebabCase", "-", camelcase.UpperKebabCase, func(w string, i int) string { return strings.ToUpper(w) }},
	{"LowerCamelCase", "", camelcase.LowerCamelCase, func(w string, i int) string {
		if i == 0 {
			return strings.ToLower(w)
		}
		if bytes.EqualFold([]byte(w), []byte("ID")) {
			return "ID"
		}
		return cases.Title(language.Und).String(w)
	}},
	{"UpperCamelCase", "", camelcase.UpperCamelCase, func(w string, i int) string {
		if bytes.EqualFold([]byte(w), []byte("ID")) {
			return "ID"
		}
		return cases.Title(language.Und).String(w)
	}},
}

type convCase struct {
	Which int
	S     []byte
	// a history: when set, the question is put to a fresh process right after converter AfterWhich was called on After —
	// a converter is a function of its argument, so the answer must be the one a fresh process gives without that call
	After      []byte `json:",omitempty"`
	AfterWhich int    `json:",omitempty"`
}

type convQ struct {
	Which int    `json:"w"`
	S     string `json:"s"` // hex
}

// convInFreshProcess: the questions put, in this order, to a process that has converted nothing yet
func convInFreshProcess(qs []convQ) []string {
	in, _ := json.Marshal(qs)
	var out []string
	if json.Unmarshal(runChildJSON("c19order", in), &out) != nil || len(out) != len(qs) {
		return nil
	}
	return out
}

func init() {
	childHandlers["c19order"] = func(args []string) int {
		outF := os.NewFile(3, "out")
		var qs []convQ
		if err := json.NewDecoder(os.Stdin).Decode(&qs); err != nil {
			return 2
		}
		res := make([]string, len(qs))
		for i, q := range qs {
			res[i] = convCase{Which: q.Which, S: []byte(unhx(q.S))}.Run()
		}
		b, _ := json.Marshal(res)
		outF.Write(b)
		return 0
	}
}

// convBatch: every question is answered in this process in stream order, and — by a fresh process — in the reverse
// order.  An answer that is not the same both times depends on what was converted before; the call that makes the
// difference is searched for (fresh processes, bisection over the earlier calls) and becomes part of the case.
func convBatch(cases []Case) []string {
	n := len(cases)
	res := make([]string, n)
	qs := make([]convQ, n)
	for i, c := range cases {
		cc := c.(convCase)
		res[i] = cc.Run()
		qs[n-1-i] = convQ{cc.Which, hx(cc.str())}
	}
	if n < 2 {
		return res
	}
	rev := convInFreshProcess(qs)
	if rev == nil {
		return res
	}
	found := 0
	for i := 0; i < n && found < 8; i++ {
		cc := cases[i].(convCase)
		if cc.After != nil || rev[n-1-i] == res[i] {
			continue
		}
		self := convQ{cc.Which, hx(cc.str())}
		alone := convInFreshProcess([]convQ{self})
		if alone == nil {
			continue
		}
		// the history that matters: the calls before this one in stream order, or the ones before it in reverse order
		var hist []convQ
		if res[i] != alone[0] {
			for _, c := range cases[:i] {
				h := c.(convCase)
				hist = append(hist, convQ{h.Which, hx(h.str())})
			}
		} else {
			hist = append(hist, qs[:n-1-i]...)
		}
		differs := func(h []convQ) bool {
			r := convInFreshProcess(append(append([]convQ{}, h...), self))
			return r != nil && r[len(r)-1] != alone[0]
		}
		if !differs(hist) {
			continue
		}
		lo, hi := 0, len(hist) // the culprit is the last call in hist[lo:hi] whose removal changes the verdict
		for hi-lo > 1 {
			mid := (lo + hi) / 2
			if differs(hist[mid:hi]) {
				lo = mid
			} else {
				hi = mid
			}
		}
		cul := hist[lo]
		if differs([]convQ{cul}) {
			nc := convCase{Which: cc.Which, S: cc.S, AfterWhich: cul.Which, After: []byte(unhx(cul.S))}
			cases[i] = nc
			res[i] = nc.Run()
			found++
		}
	}
	return res
}

func (c convCase) str() string { return string(c.S) }

// The per-word transforms (strings.ToLower/ToUpper, cases.Title, the ID rule) are library
// functions the model takes as a parameter: the harness evaluates them on the words of the
// input (computed here by an independent maximal-munch pass that over-approximates the
// words Split can return: every substring run is cheap to list for short inputs).
func (c convCase) Line() string {
	cv := converters[c.Which]
	s := c.str()
	words := map[string]bool{}
	if utf8.ValidString(s) {
		rs := []rune(s)
		if len(rs) > 96 {
			return "" // longer than any generated input: the word table would not be complete, so the model is not asked
		}
		for i := 0; i < len(rs); i++ {
			// every substring: any of them can come out of the splitter as one word (a cap here made the model
			// answer missing-word for a run of thirteen capitals — a false alarm of the harness, not of the code)
			for j := i + 1; j <= len(rs) && j-i <= 96; j++ {
				words[string(rs[i:j])] = true
			}
		}
	} else {
		words[s] = true
	}
	var tab []string
	for w := range words {
		t0 := guard(func() string { return cv.trans(w, 0) })
		t1 := guard(func() string { return cv.trans(w, 1) })
		tab = append(tab, hx(w), hx(t0), hx(t1))
	}
	if !utf8.ValidString(s) {
		// whole string is the single word, index 0
		return "case " + hx(cv.linker) + " " + hx(s) + " - " + strings.Join(tab, " ")
	}
	sortTriples(tab)
	return "case " + hx(cv.linker) + " " + hx(s) + " " + runeClasses(s) + " " + strings.Join(tab, " ")
}

func sortTriples(t []string) {
	n := len(t) / 3
	for i := 1; i < n; i++ {
		for j := i; j > 0 && t[3*j] < t[3*(j-1)]; j-- {
			for k := 0; k < 3; k++ {
				t[3*j+k], t[3*(j-1)+k] = t[3*(j-1)+k], t[3*j+k]
			}
		}
	}
}

func (c convCase) Run() string {
	if c.After != nil {
		r := convInFreshProcess([]convQ{{c.AfterWhich, hx(string(c.After))}, {c.Which, hx(c.str())}})
		if r == nil {
			return "harness: no child"
		}
		return r[1]
	}
	return guard(func() string { return "ok " + hx(converters[c.Which].f(c.str())) })
}

func (c convCase) Oracle(out string) string {
	if out == "panic" {
		return converters[c.Which].name + " panicked"
	}
	if c.After != nil {
		alone := convInFreshProcess([]convQ{{c.Which, hx(c.str())}})
		if alone != nil && alone[0] != out {
			return fmt.Sprintf("%s(%q) is %s in a fresh process but %s right after %s(%q): the result depends on what was converted before",
				converters[c.Which].name, c.str(), showOut(alone[0]), showOut(out), converters[c.AfterWhich].name, string(c.After))
		}
		return ""
	}
	if again := c.Run(); again != out {
		return converters[c.Which].name + " returned a different result on the second call"
	}
	return ""
}

func (c convCase) Shrinks() []Case {
	var out []Case
	if c.After != nil {
		return nil
	}
	for _, b := range shrinkBytes(c.S) {
		out = append(out, convCase{Which: c.Which, S: b})
	}
	if c.Which != 0 {
		out = append(out, convCase{Which: 0, S: c.S})
	}
	return out
}
func (c convCase) Key() string {
	if c.After != nil {
		return converters[c.Which].name + ":" + hx(c.str()) + " after " + converters[c.AfterWhich].name + ":" + hx(string(c.After))
	}
	return converters[c.Which].name + ":" + hx(c.str())
}
func (c convCase) Classes() []string { return append(strClasses(c.str()), converters[c.Which].name) }
func (c convCase) Nontrivial() bool  { return splitCase{c.S}.Nontrivial() }

var c19Alphabets = [][]rune{
	[]rune("abAB12_-. xZ"),
	[]rune("aZ9_ "),
	[]rune("abcXYZ019_-./ \t\n"),
	[]rune("éÉßǅ٣١中_a1Aͅ "), // lower, upper, title-case (Dž), Arabic-Indic digits, CJK, combining
	[]rune("IDidHTTPServer2xJSON_v10"),
	// runes an implementation might set aside as a marker: the replacement character written out (valid UTF-8 like any
	// other), NUL and the separators of ASCII, the last code points of the planes, a private-use rune
	[]rune("aB1_\ufffd\x00\x1e\x1f\uffff\U0010ffff\ue000\ufeff"),
	// text that is not in a Unicode normal form: conjoining jamo, kana with a combining voiced mark, marks in non-canonical
	// order, code points with a singleton decomposition (Kelvin, Ohm, Angstrom signs, a compatibility ideograph)
	[]rune("\u1112\u1161\u11ab\u304b\u3099q\u0307\u0323x\u212a\u2126\u212b\uf900\u0627\u0653a1"),
}

func genC19Bytes(r *Rng) []byte {
	if r.Chance(2) {
		// long identifiers: dozens to hundreds of runs of one character class after another (what a splitter with a fixed
		// number of slots, a table of a fixed size or a buffer boundary would stumble over)
		var b strings.Builder
		for n := 20 + r.Intn(140); n > 0; n-- {
			b.WriteString(Pick(r, []string{"Ab", "aB", "A1b", "ab_", "X", "é", "Éa", "9", "Http", "ID", "x"}))
		}
		return []byte(b.String())
	}
	switch r.Intn(12) {
	case 0: // invalid UTF-8
		b := []byte(r.Str(c19Alphabets[0], 6))
		bad := [][]byte{{0xff}, {0xc3}, {0xe2, 0x82}, {0xed, 0xa0, 0x80}, {0xc0, 0xaf}, {0xf8, 0x88, 0x80, 0x80, 0x80}}
		x := Pick(r, bad)
		k := r.Intn(len(b) + 1)
		return append(append(append([]byte{}, b[:k]...), x...), b[k:]...)
	case 1: // punctuation first
		return []byte(string(Pick(r, []rune("_-. \t/~+$"))) + r.Str(c19Alphabets[2], 8))
	case 2:
		return []byte(r.Str(c19Alphabets[3], 8))
	case 3:
		return []byte(r.Str(c19Alphabets[4], 14))
	case 4:
		return []byte(r.Str(c19Alphabets[1], 10))
	default:
		return []byte(r.Str(Pick(r, c19Alphabets), 10))
	}
}

func enumStrings(al []rune, maxLen int, yield func(string)) {
	var rec func(prefix []rune)
	rec = func(prefix []rune) {
		yield(string(prefix))
		if len(prefix) == maxLen {
			return
		}
		for _, a := range al {
			rec(append(prefix, a))
		}
	}
	rec(nil)
}

// specialRunes: letters whose case mappings change the UTF-8 length (İ, ẞ, Ω ohm, K kelvin, Å angstrom, …), title-case
// letters, and a sample of every 41st cased letter — the places where byte arithmetic on case-mapped words goes wrong
func specialRunes() []rune {
	var out []rune
	n := 0
	for r := rune(0x80); r < 0x1FFFF; r++ {
		if !unicode.IsLetter(r) {
			continue
		}
		l, u, t := unicode.ToLower(r), unicode.ToUpper(r), unicode.ToTitle(r)
		lenDiff := utf8.RuneLen(l) != utf8.RuneLen(r) || utf8.RuneLen(u) != utf8.RuneLen(r) || utf8.RuneLen(t) != utf8.RuneLen(r) ||
			len(strings.ToLower(string(r))) != utf8.RuneLen(r) || len(strings.ToUpper(string(r))) != utf8.RuneLen(r)
		if lenDiff || unicode.IsTitle(r) {
			out = append(out, r)
			continue
		}
		if unicode.IsUpper(r) || unicode.IsLower(r) {
			n++
			if n%41 == 0 {
				out = append(out, r)
			}
		}
	}
	return out
}

// ---- the converters and Split under concurrent callers: a pure function gives the same answer whoever else is calling

type convConcCase struct {
	Inputs []string `json:"inputs"` // hex
	G      int      `json:"goroutines"`
}

func (c convConcCase) inputs() []string {
	var out []string
	for _, h := range c.Inputs {
		b, _ := hex.DecodeString(h)
		out = append(out, string(b))
	}
	return out
}

func c19All(s string) string {
	var b strings.Builder
	for _, cv := range converters {
		b.WriteString(cv.f(s))
		b.WriteByte(0)
	}
	b.WriteString(strings.Join(camelcase.Split(s), "\x01"))
	return b.String()
}

func (c convConcCase) Line() string { return "" }
func (c convConcCase) Run() string {
	return guard(func() string {
		in := c.inputs()
		want := make([]string, len(in))
		for i, s := range in {
			want[i] = c19All(s)
		}
		bad := make([]int, c.G)
		panics := make([]string, c.G)
		var wg sync.WaitGroup
		start := make(chan struct{})
		for g := 0; g < c.G; g++ {
			wg.Add(1)
			go func(g int) {
				defer wg.Done()
				defer func() {
					if e := recover(); e != nil {
						panics[g] = fmt.Sprint(e)
					}
				}()
				<-start
				for round := 0; round < 40; round++ {
					for i := range in {
						j := (i*5 + g*3 + round) % len(in)
						if c19All(in[j]) != want[j] {
							bad[g]++
						}
					}
				}
			}(g)
		}
		close(start)
		done := make(chan struct{})
		go func() { wg.Wait(); close(done) }()
		select {
		case <-done:
		case <-time.After(90 * time.Second):
			return "hang: concurrent converter calls did not return within 90 s"
		}
		n := 0
		for g := range bad {
			if panics[g] != "" {
				return "panic: " + panics[g]
			}
			n += bad[g]
		}
		return fmt.Sprintf("ok mismatches=%d", n)
	})
}
func (c convConcCase) Oracle(out string) string {
	if out != "ok mismatches=0" {
		return "with " + fmt.Sprint(c.G) + " concurrent callers the converters / Split answered differently from a single caller: " + out
	}
	return ""
}
func (c convConcCase) Shrinks() []Case {
	var out []Case
	if c.G > 2 {
		out = append(out, convConcCase{c.Inputs, c.G / 2})
	}
	if len(c.Inputs) > 1 {
		out = append(out, convConcCase{c.Inputs[:len(c.Inputs)/2], c.G})
	}
	return out
}
func (c convConcCase) Key() string {
	return fmt.Sprintf("%d goroutines × %d inputs", c.G, len(c.Inputs))
}
func (c convConcCase) Classes() []string { return []string{fmt.Sprintf("goroutines:%d", c.G)} }
func (c convConcCase) Nontrivial() bool  { return true }

func init() {
	register(&Property{ID: "C19", Streams: []*Stream{
		{
			Name: "concurrent", Quick: 24, Thorough: 240,
			New: func() Case { return &convConcCase{} },
			Gen: func(r *Rng, i int) Case {
				c := convConcCase{G: Pick(r, []int{2, 8, 32})}
				for n := 4 + r.Intn(12); n > 0; n-- {
					c.Inputs = append(c.Inputs, hex.EncodeToString(genC19Bytes(r)))
				}
				c.Inputs = append(c.Inputs, hex.EncodeToString([]byte("maxHTTPValueID")), hex.EncodeToString([]byte("user_id-Name")))
				return c
			},
			ShrinkBudget: 6, MaxShrinks: 3,
			Rule: "2/8/32 goroutines released together, each calling the six converters and Split 40 times on 6–18 inputs in different orders; every answer compared with the one a single caller got beforehand; a hang (90 s) or a panic is a failure; a sample of schedules, not an enumeration",
		},
		{
			Name: "convert-unicode", New: func() Case { return &convCase{} },
			BatchRun: convBatch,
			Enum: func(tier string, yield func(Case)) {
				for _, r := range specialRunes() {
					R := string(r)
					for _, s := range []string{R, "max" + R + "Value", R + "Value", "temp_" + R, R + "x", "a" + R, R + R, "_" + R + "_"} {
						for w := range converters {
							yield(convCase{Which: w, S: []byte(s)})
						}
					}
				}
			},
			EnumExhaustive: true,
			Rule:           "every letter (U+0080…U+1FFFF) whose lower/upper/title mapping changes its UTF-8 length, every title-case letter and every 41st other cased letter, alone and in 7 surroundings (before a Capitalised word, after an underscore, doubled, …) × the six converters; every answer is also asked of a fresh process in reverse stream order (purity: a difference is traced to the earlier call that causes it)",
		},
		{
			Name: "split", Quick: 20000, Thorough: 300000,
			New:  func() Case { return &splitCase{} },
			Gen:  func(r *Rng, i int) Case { return splitCase{genC19Bytes(r)} },
			Rule: "random byte strings over identifier/punctuation/Unicode-case alphabets (one in fifty a long identifier of 20–160 pieces, i.e. up to a few hundred runs of character classes) plus an invalid-UTF-8 stream; compared: list of words or panic; non-trivial = at least two rune classes or invalid bytes; distinct by input",
		},
		{
			Name: "split-exhaustive", New: func() Case { return &splitCase{} },
			Enum: func(tier string, yield func(Case)) {
				n := 4
				if tier == "thorough" {
					n = 6
				}
				enumStrings([]rune("aB1_ Éé٣"), n, func(s string) { yield(splitCase{[]byte(s)}) })
			},
			EnumExhaustive: true,
			Rule:           "every string of length ≤ 4 (quick) / ≤ 6 (thorough) over the 8-symbol alphabet {a,B,1,_,space,É,é,٣} covering the four rune classes",
		},
		{
			Name: "convert", Quick: 6000, Thorough: 60000,
			New:      func() Case { return &convCase{} },
			Gen:      func(r *Rng, i int) Case { return convCase{Which: r.Intn(len(converters)), S: genC19Bytes(r)} },
			BatchRun: convBatch,
			Rule:     "the six converters on the same input distribution; model = makeCase over the model's split with the library word transforms supplied per word; oracle: no panic, same result twice, and the same result from a fresh process that is asked the whole stream in reverse order (a difference is traced, by bisection in fresh processes, to the one earlier call that causes it, and that pair is the failing input)",
		},
	}})
}
