package main

// C01 — every file gengo writes is valid, canonically formatted Go for its package.

import (
	"bytes"
	"fmt"
	"go/ast"
	"go/constant"
	"go/format"
	"go/parser"
	"go/printer"
	"go/scanner"
	"go/token"
	"sort"
	"strings"

	gformat "mvdan.cc/gofumpt/format"
)

type fmtCase struct {
	S   PScn `json:"scenario"`
	out *POut
}

const c01Gen = "rec"

func (c *fmtCase) pkgDir() string  { return c.S.Pkgs[0].Dir }
func (c *fmtCase) pkgPath() string { return c.S.Pkgs[0].path() }
func (c *fmtCase) relFile() string { return c.pkgDir() + "/" + pipeBase + "." + c01Gen + ".go" }

func (c *fmtCase) outcome() *POut {
	if c.out == nil {
		c.out = runScenarios([]*PScn{&c.S}, 1)[0]
	}
	return c.out
}

func (c *fmtCase) Run() string {
	o := c.outcome()
	var r string
	withMod(&c.S, func() {
		if o.Result != "ok" {
			r = "result=" + strings.SplitN(o.Result, ":", 2)[0]
			return
		}
		txt, ok := o.Texts[c.relFile()]
		if !ok {
			r = "result=ok file=none"
			return
		}
		r = "result=ok file=" + hx(txt)
	})
	return r
}

// items of the package in call order (types are dispatched in sorted order)
func (c *fmtCase) items() []PItem {
	var items []PItem
	withMod(&c.S, func() {
		p := c.S.Pkgs[0]
		var names []string
		for _, t := range p.Types {
			names = append(names, t.Name)
		}
		sort.Strings(names)
		for _, n := range names {
			items = append(items, c.S.Custom[c01Gen+"@"+p.path()+"@"+n]...)
		}
	})
	return items
}

func importsOfFile(src string) map[string]string {
	m := map[string]string{}
	f, err := parser.ParseFile(token.NewFileSet(), "x.go", src, parser.ImportsOnly)
	if err != nil {
		return m
	}
	for _, is := range f.Imports {
		if is.Name != nil && is.Name.Name != "_" { // (a blank import binds no name: it is the generator's own rendering, not the import table's)
			m[strings.Trim(is.Path.Value, `"`)] = is.Name.Name
		}
	}
	return m
}

// fragments: what the generator rendered, with references printed under the names the written
// file's own import block binds (C03 judges the names)
func (c *fmtCase) fragments(imports map[string]string) []string {
	var frags []string
	for _, it := range c.items() {
		switch it.K {
		case "block":
			frags = append(frags, it.S)
		case "nest":
			frags = append(frags, strings.SplitN(it.S, "\x1e", 3)...)
		case "ref":
			name := it.Name
			if it.Path != "" {
				withMod(&c.S, func() {
					if it.Path != c.pkgPath() {
						name = imports[it.Path] + "." + it.Name
					}
				})
			}
			frags = append(frags, strings.ReplaceAll(strings.TrimLeft(it.S, "\n"), "@ref", name))
		}
	}
	return frags
}

func (c *fmtCase) expectedImports() map[string]bool {
	m := map[string]bool{}
	withMod(&c.S, func() {
		for _, it := range c.items() {
			if it.K == "ref" && it.Path != "" && it.Path != c.pkgPath() {
				m[it.Path] = true
			}
		}
	})
	return m
}

func (c *fmtCase) Line() string {
	o := c.outcome()
	if o.Result != "ok" {
		return ""
	}
	txt, ok := o.Texts[c.relFile()]
	if !ok {
		return ""
	}
	imps := importsOfFile(txt)
	frags := c.fragments(imps)
	enc := showImports(imps)
	if enc == "" {
		enc = "-"
	}
	return "assemble " + hx(c.pkgDir()) + " " + hx(c01Gen) + " " + enc + " " + hxs(frags, " ")
}

func (c *fmtCase) goVersion() string {
	if c.S.GoVer != "" {
		return c.S.GoVer
	}
	return "1.24"
}

func (c *fmtCase) modPath() string {
	if c.S.Mod != "" {
		return c.S.Mod
	}
	return "example.com/m"
}

// pipeline: what WriteToFile does to the assembled source (same library versions)
func (c *fmtCase) pipeline(src []byte) (string, error) {
	fset := token.NewFileSet()
	file, err := parser.ParseFile(fset, "x.go", src, parser.ParseComments|parser.SkipObjectResolution|parser.AllErrors)
	if err != nil {
		return "", err
	}
	ast.SortImports(fset, file)
	gformat.File(fset, file, gformat.Options{LangVersion: "go" + c.goVersion(), ModulePath: c.modPath()})
	var b bytes.Buffer
	if err := format.Node(&b, fset, file); err != nil {
		return "", err
	}
	return b.String(), nil
}

// the model assembles the source; the formatting steps (not modelled) are applied to it here
func (c *fmtCase) CanonModel(m string) string {
	if !strings.HasPrefix(m, "ok ") {
		return m
	}
	f := strings.Fields(m)
	src := unhx(f[1])
	if len(f) >= 4 && unhx(f[3]) != pipeBase+"."+c01Gen+".go" {
		return "model file name " + unhx(f[3])
	}
	out, err := c.pipeline([]byte(src))
	if err != nil {
		return "result=syntax"
	}
	return "result=ok file=" + hx(out)
}

// declStrings: the top-level declarations in order (kind and declared names; grouped declarations
// flattened, because gofumpt groups and ungroups adjacent single declarations) followed by the text of
// every comment in order (the generator's header comment aside).  gofumpt's own rewrites inside
// declarations (`var x = 1` to `x := 1`, octal literals, …) are formatting and are not compared here;
// the byte-exact comparison is the one with the model's source run through the same pipeline.
func declStrings(src string) ([]string, error) {
	fset := token.NewFileSet()
	f, err := parser.ParseFile(fset, "x.go", src, parser.ParseComments)
	if err != nil {
		return nil, err
	}
	var out []string
	// the values of the literals a declaration contains, in order: formatting respells numbers and never touches
	// what a string or rune literal denotes
	lits := func(n ast.Node) string {
		var vs []string
		ast.Inspect(n, func(m ast.Node) bool {
			if bl, ok := m.(*ast.BasicLit); ok {
				if v := constant.MakeFromLiteral(bl.Value, bl.Kind, 0); v.Kind() != constant.Unknown {
					vs = append(vs, v.ExactString())
				} else {
					vs = append(vs, bl.Value)
				}
			}
			return true
		})
		if len(vs) == 0 {
			return ""
		}
		return " literals[" + strings.Join(vs, " ; ") + "]"
	}
	for _, d := range f.Decls {
		switch x := d.(type) {
		case *ast.GenDecl:
			if x.Tok == token.IMPORT {
				continue
			}
			for _, sp := range x.Specs {
				switch y := sp.(type) {
				case *ast.ValueSpec:
					var ns []string
					for _, n := range y.Names {
						ns = append(ns, n.Name)
					}
					out = append(out, x.Tok.String()+" "+strings.Join(ns, ",")+lits(y))
				case *ast.TypeSpec:
					var b bytes.Buffer
					printer.Fprint(&b, token.NewFileSet(), y.Type)
					out = append(out, "type "+y.Name.Name+" "+normalizeSpace(b.String())+lits(y))
				}
			}
		case *ast.FuncDecl:
			var b bytes.Buffer
			cp := *x
			cp.Body, cp.Doc = nil, nil
			printer.Fprint(&b, token.NewFileSet(), &cp)
			out = append(out, normalizeSpace(b.String())+lits(x))
		}
	}
	for _, cg := range f.Comments {
		t := cg.Text()
		if strings.Contains(t, "GENERATED BY gengo:") && cg.Pos() < f.Package {
			continue
		}
		// gofmt reformats doc comments (blank lines around indented blocks, list markers): only the words are compared
		out = append(out, "comment "+normalizeSpace(t))
	}
	return out, nil
}

func normalizeSpace(s string) string { return strings.Join(strings.Fields(s), " ") }

// failure classes used as known-finding keys
const (
	clsGoBuild = "a //go:build (or // +build) line inside the rendered body is hoisted above the header comment"
	clsAlign   = "a second gofmt pass only changes the alignment (spaces and tabs inside lines) of a comment or of a one-line func, in a run of adjacent lines that holds both a comment and a one-line func (go/printer is not idempotent here)"
	clsVarJoin = "a second gofumpt pass only regroups adjacent var declarations or inserts an empty line between adjacent declaration groups (gofumpt is not idempotent here)"
)

// sameUpToInlineSpace: the same lines once runs of spaces and tabs inside a line are collapsed
func sameUpToInlineSpace(a, b string) bool {
	la, lb := strings.Split(a, "\n"), strings.Split(b, "\n")
	if len(la) != len(lb) {
		return false
	}
	for i := range la {
		if normalizeSpace(la[i]) != normalizeSpace(lb[i]) {
			return false
		}
		if la[i] == lb[i] {
			continue
		}
		// only the recorded shape: the differing line carries a comment or is a one-line func declaration, inside a
		// run of adjacent lines (no empty line between) that holds both a comment and a one-line func declaration
		isFunc := func(l string) bool {
			return strings.HasPrefix(l, "func ") && strings.Contains(l, "{") && strings.HasSuffix(strings.TrimSpace(strings.SplitN(l, "//", 2)[0]), "}")
		}
		hasComment := func(l string) bool { return strings.Contains(l, "//") || strings.Contains(l, "/*") }
		if !isFunc(la[i]) && !hasComment(la[i]) {
			return false
		}
		commented, oneLiner := false, false
		for j := i; j >= 0 && strings.TrimSpace(la[j]) != ""; j-- {
			commented = commented || hasComment(la[j])
			oneLiner = oneLiner || isFunc(la[j])
		}
		for j := i; j < len(la) && strings.TrimSpace(la[j]) != ""; j++ {
			commented = commented || hasComment(la[j])
			oneLiner = oneLiner || isFunc(la[j])
		}
		if !commented || !oneLiner {
			return false
		}
	}
	return true
}

type fmtVerdict struct{ class, msg string }

func (c *fmtCase) judge() fmtVerdict {
	o := c.outcome()
	if strings.HasPrefix(o.Result, "panic") {
		return fmtVerdict{"", "Execute panicked: " + o.Result}
	}
	if o.Result != "ok" {
		// a body the harness built must parse: it is checked below against go/parser itself
		frags := c.fragments(map[string]string{})
		src := "package x\n" + strings.Join(frags, "")
		if _, err := parser.ParseFile(token.NewFileSet(), "x.go", src, 0); err == nil && strings.HasPrefix(o.Result, "syntax") {
			return fmtVerdict{"", "Execute reported a syntax error for a body that parses: " + o.ErrText}
		}
		return fmtVerdict{}
	}
	txt, ok := o.Texts[c.relFile()]
	if !ok {
		if len(c.items()) > 0 {
			return fmtVerdict{"", "the generator rendered something but no file was written"}
		}
		return fmtVerdict{}
	}
	fset := token.NewFileSet()
	f, err := parser.ParseFile(fset, "x.go", txt, parser.ParseComments)
	if err != nil {
		return fmtVerdict{"", "the written file does not parse: " + err.Error()}
	}
	hasBuild := false
	for _, it := range c.items() {
		if strings.Contains(it.S, "//go:build") || strings.Contains(it.S, "// +build") {
			hasBuild = true
		}
	}
	if !strings.HasPrefix(txt, "/*\nPackage "+c.pkgDir()+" GENERATED BY gengo:"+c01Gen) {
		if hasBuild {
			return fmtVerdict{clsGoBuild, "the file does not open with the comment naming the generator: " + clip(txt, 120)}
		}
		return fmtVerdict{"", "the file does not open with the comment naming the generator: " + clip(txt, 120)}
	}
	if f.Name.Name != c.pkgDir() {
		return fmtVerdict{"", "package clause " + f.Name.Name + ", the target package is " + c.pkgDir()}
	}
	// imports = exactly what the body references
	imps := importsOfFile(txt)
	want := c.expectedImports()
	for p := range want {
		if _, ok := imps[p]; !ok {
			return fmtVerdict{"", "referenced package " + p + " is not imported"}
		}
	}
	for p := range imps {
		if !want[p] {
			return fmtVerdict{"", "package " + p + " is imported but not referenced"}
		}
	}
	// the declarations are the rendered ones, in order, altered only by formatting
	body := "package " + c.pkgDir() + "\n" + strings.Join(c.fragments(imps), "")
	wantDecls, err1 := declStrings(body)
	gotDecls, err2 := declStrings(txt)
	if err1 == nil && err2 == nil && strings.Join(wantDecls, "\n") != strings.Join(gotDecls, "\n") {
		return fmtVerdict{"", fmt.Sprintf("the declarations of the file differ from the rendered ones:\n--- rendered\n%s\n--- file\n%s", strings.Join(wantDecls, "\n"), strings.Join(gotDecls, "\n"))}
	}
	// fixed points
	if g, err := format.Source([]byte(txt)); err != nil || string(g) != txt {
		cls := ""
		if err == nil && sameUpToInlineSpace(txt, string(g)) {
			cls = clsAlign
		}
		return fmtVerdict{cls, "the file is not a fixed point of gofmt:\n" + firstDiff(txt, string(g))}
	}
	g2, err := gformat.Source([]byte(txt), gformat.Options{LangVersion: "go" + c.goVersion(), ModulePath: c.modPath()})
	if err != nil {
		return fmtVerdict{"", "gofumpt fails on the file: " + err.Error()}
	}
	if string(g2) != txt {
		// classify: does the second pass change nothing but the grouping / spacing of declarations?
		cls := ""
		if layoutTokens(txt) == layoutTokens(string(g2)) {
			cls = clsVarJoin
		}
		return fmtVerdict{cls, "the file is not a fixed point of gofumpt for go" + c.goVersion() + ":\n" + firstDiff(txt, string(g2))}
	}
	return fmtVerdict{}
}

// layoutTokens: the token stream without what regrouping and spacing change (var keywords, parentheses,
// automatic semicolons)
func layoutTokens(src string) string {
	var sc scanner.Scanner
	fset := token.NewFileSet()
	file := fset.AddFile("x.go", fset.Base(), len(src))
	sc.Init(file, []byte(src), nil, scanner.ScanComments)
	var b strings.Builder
	for {
		_, tok, lit := sc.Scan()
		if tok == token.EOF {
			break
		}
		switch tok {
		case token.VAR, token.LPAREN, token.RPAREN, token.SEMICOLON:
			continue
		}
		if lit == "" {
			lit = tok.String()
		}
		b.WriteString(lit + "\x00")
	}
	return b.String()
}

func firstDiff(a, b string) string {
	la, lb := strings.Split(a, "\n"), strings.Split(b, "\n")
	for i := 0; i < len(la) && i < len(lb); i++ {
		if la[i] != lb[i] {
			return fmt.Sprintf("line %d: %q vs %q", i+1, la[i], lb[i])
		}
	}
	return fmt.Sprintf("%d vs %d lines", len(la), len(lb))
}

func (c *fmtCase) Oracle(out string) string { return c.judge().msg }

// Key: a failure that belongs to a recorded class is identified by the class, anything else by the input
func (c *fmtCase) Key() string {
	if v := c.judge(); v.class != "" {
		return "class: " + v.class
	}
	var b strings.Builder
	for _, it := range c.items() {
		b.WriteString(it.K + ":" + it.S + "|" + it.Path + "." + it.Name + ";")
	}
	return fmt.Sprintf("go%s %s %s", c.goVersion(), c.modPath(), b.String())
}

func (c *fmtCase) Shrinks() []Case {
	var out []Case
	for k, items := range c.S.Custom {
		for i := range items {
			n := cloneScn(c.S)
			n.Custom[k] = append(append([]PItem{}, items[:i]...), items[i+1:]...)
			out = append(out, &fmtCase{S: n})
		}
	}
	return out
}

func (c *fmtCase) Classes() []string {
	m := map[string]bool{"go:" + c.goVersion(): true, "module:" + c.modPath(): true}
	n := 0
	for _, it := range c.items() {
		m["item:"+it.K] = true
		if it.K == "ref" {
			n++
		}
		for _, kw := range []string{"func ", "var ", "const ", "type ", "//", "/*", ";"} {
			if strings.Contains(it.S, kw) {
				m["body-has:"+strings.TrimSpace(kw)] = true
			}
		}
	}
	m[fmt.Sprintf("imports:%d", min(len(c.expectedImports()), 5))] = true
	var cl []string
	for k := range m {
		cl = append(cl, k)
	}
	sort.Strings(cl)
	return cl
}
func (c *fmtCase) Nontrivial() bool { return len(c.items()) > 1 }

var c01Refs = []struct{ path, name string }{
	{"fmt", "Stringer"}, {"strings", "Builder"}, {"time", "Duration"}, {"io", "Reader"}, {"bytes", "Buffer"},
	{"context", "Context"}, {"net/http", "Handler"}, {"encoding/json", "Marshaler"}, {"{mod}/lib", "Thing"}, {"text/template", "Template"},
	{"html/template", "Template"}, {"math/rand", "Rand"}, {"{self}", "Local"},
}

// c01Chains: method expressions of the first entries of c01Refs — the package is referred to only below a longer selector
// chain (`(*strings.Builder).Len`: the qualified identifier is the operand of another selector)
var c01Chains = []string{"@ref.String", "(*@ref).Len", "@ref.String", "@ref.Read", "(*@ref).Len", "@ref.Err", "@ref.ServeHTTP", "@ref.MarshalJSON"}

func genBodyItems(r *Rng, mod, self string, id *int) []PItem {
	var items []PItem
	n := 1 + r.Intn(6)
	for i := 0; i < n; i++ {
		*id++
		k := *id
		switch r.Intn(24) {
		case 21, 22:
			i := r.Intn(len(c01Chains))
			ref := c01Refs[i]
			form := Pick(r, []string{"var M%d = %s\n", "func N%d() { _ = %s }\n", "var O%d = []any{%s, nil}\n"})
			items = append(items, PItem{K: "ref", S: fmt.Sprintf(form, k, c01Chains[i]), Path: ref.path, Name: ref.name})
		case 0:
			items = append(items, PItem{K: "block", S: fmt.Sprintf("func F%d() {}\n", k)})
		case 1:
			items = append(items, PItem{K: "block", S: fmt.Sprintf("func  F%d ( a int,b string )  (int ,error) { x:=a; _ = b;return x , nil }\n", k)})
		case 2:
			items = append(items, PItem{K: "block", S: fmt.Sprintf("\n\n// F%d is documented.\n//\n// Second paragraph.\nfunc F%d() {\n\n\tvar x = 1 // trailing\n\n\n\t_ = x\n}\n", k, k)})
		case 3:
			items = append(items, PItem{K: "block", S: fmt.Sprintf("var V%d = %d\n", k, k)})
		case 4:
			items = append(items, PItem{K: "block", S: fmt.Sprintf("var (\n\tA%d = 1 // a\n\tBB%d   = \"x\"\n)\n", k, k)})
		case 5:
			items = append(items, PItem{K: "block", S: fmt.Sprintf("const C%d, D%d = 1, 2\n", k, k)})
		case 6:
			items = append(items, PItem{K: "block", S: fmt.Sprintf("type T%d struct {\n\t// A is a field\n\tA int `json:\"a\"`\n\tLonger string // trailing\n}\n\nfunc (t *T%d) M() int { return t.A }\n", k, k)})
		case 7:
			items = append(items, PItem{K: "block", S: fmt.Sprintf("// detached comment %d\n\n", k)})
		case 8, 9, 10:
			ref := Pick(r, c01Refs)
			path := strings.ReplaceAll(strings.ReplaceAll(ref.path, "{mod}", mod), "{self}", self)
			items = append(items, PItem{K: "ref", S: fmt.Sprintf("var R%d *@ref\n", k), Path: path, Name: ref.name})
		case 11:
			ref := Pick(r, c01Refs[:8])
			items = append(items, PItem{K: "ref", S: fmt.Sprintf("\nfunc G%d(x @ref) (y @ref) {\n\treturn x\n}\n", k), Path: ref.path, Name: ref.name})
		case 12:
			items = append(items, PItem{K: "block", S: fmt.Sprintf("type (\n\tI%d interface{ M() }\n\tS%d []int\n)\n", k, k)})
		case 13:
			items = append(items, PItem{K: "block", S: fmt.Sprintf("func H%d() (r int) {\n\tdefer func() { r++ }()\n\tfor i := 0; i < 3; i++ { if i%%2 == 0 { continue }; r += i }\n\tswitch r {\n\tcase 1, 2:\n\t\treturn 0\n\tdefault:\n\t}\n\treturn\n}\n", k)})
		case 14:
			if r.Chance(6) {
				// known-finding territory (F20): a lone var declaration after an empty line, next to another one
				items = append(items, PItem{K: "block", S: fmt.Sprintf("var\n\nW%d int // t\n", k)}, PItem{K: "block", S: fmt.Sprintf("var X%d string\n", k)})
			} else {
				items = append(items, PItem{K: "block", S: fmt.Sprintf("var W%d int\n", k)})
			}
		case 16:
			// literals gofmt spells canonically (prefix and exponent letters, octal-looking imaginaries) and, from go 1.13 on, gofumpt's 0o octals
			lit := Pick(r, []string{"0XFF00", "0B101", "0O17", "1E6", "0X1P-2", "0777i", "0x1p-2", "0Xabc", "1_000E3", "017", "0o17", "1e6", "0b1"})
			items = append(items, PItem{K: "block", S: fmt.Sprintf("const N%d = %s\n", k, lit)})
		case 17:
			// redundant syntax a formatter removes or regularises: parentheses, semicolons, empty statements, spacing in composite literals
			items = append(items, PItem{K: "block", S: Pick(r, []string{
				fmt.Sprintf("func P%d(x int) int { if (x > 0) { return (x) }; ; return ((x + 1)) }\n", k),
				fmt.Sprintf("var L%d = []int{1,2,\n3 ,4,\n}\n", k),
				fmt.Sprintf("var M%d = map[string][]int{ \"a\":{1}, \"bb\" : { 2,3 } ,\n}\n", k),
				fmt.Sprintf("func Q%d() { for ;; { break } ; for i:=0;i<2;i++ {}; var _ = func ( ) { } }\n", k),
				fmt.Sprintf("type G%d[T any,U comparable] struct{ a T;b U }\n\nfunc (g *G%d[T,U]) Get( ) T { return g.a }\n", k, k),
				fmt.Sprintf("func R%d() string { return `raw\n\ttext  ` + \"a\\tb\" }\n", k),
				fmt.Sprintf("func S%d(x interface{}) { switch x.(type) { case int : ; case string,bool: } ; L: for { break L } }\n", k),
			})})
		case 18:
			// comments in places where the printer has to decide
			items = append(items, PItem{K: "block", S: Pick(r, []string{
				fmt.Sprintf("func C%d( /* a */ x int /* b */ ) /* c */ int { /* d */ return x /* e */ } // f\n", k),
				fmt.Sprintf("type E%d struct { // open\n\tA int\n\n\n\t// lonely\n\n\tB int /* tail */\n} // close\n", k),
				fmt.Sprintf("var (\n// head\nY%d = 1\n\n\n// next\nZ%d = 2 //t\n)\n", k, k),
				fmt.Sprintf("//nolint:all\n//  double  space\n//\tTabbed\nfunc D%d() {}\n", k),
			})})
		case 19:
			ref := Pick(r, c01Refs)
			path := strings.ReplaceAll(strings.ReplaceAll(ref.path, "{mod}", mod), "{self}", self)
			items = append(items, PItem{K: "ref", S: fmt.Sprintf("type U%d struct {\n\tF   []*@ref `json:\"f\"`\n\tGGGG map[string]@ref\n}\n", k), Path: path, Name: ref.name})
		case 20:
			// one declaration handed over in two Render calls, cut where an added line break would become content
			parts := Pick(r, [][2]string{
				{fmt.Sprintf("const Y%d = `left|", k), "|right`\n"},
				{fmt.Sprintf("/* block comment %d,", k), " still the same line */\n"},
				{fmt.Sprintf("var Z%d = \"a\" +", k), " \"b\"\n"},
				{fmt.Sprintf("func K%d() string { return `x", k), "y` }\n"},
			})
			items = append(items, PItem{K: "block", S: parts[0]}, PItem{K: "block", S: parts[1]})
		case 23:
			if r.Chance(2) {
				// a helper rendered on demand, in the middle of a lazy sequence of declarations
				items = append(items, PItem{K: "nest", S: fmt.Sprintf("func (l List%d) Len() int { return len(l) }\n\n\x1efunc less%d(a, b int) bool { return a < b }\n\n\x1efunc (l List%d) Less(i, j int) bool { return less%d(l[i], l[j]) }\n\n", k, k, k, k)},
					PItem{K: "block", S: fmt.Sprintf("type List%d []int\n", k)})
			} else {
				items = append(items, PItem{K: "block", S: fmt.Sprintf("var Q%d = %d\n", k, k)})
			}
		case 15:
			if r.Chance(6) {
				items = append(items, PItem{K: "block", S: "//go:build linux\n\n"}) // known-finding territory (F18)
			} else {
				items = append(items, PItem{K: "block", S: fmt.Sprintf("/* block comment %d\n   second line */\n", k)})
			}
		}
	}
	return items
}

func genFmtCase(r *Rng) *fmtCase {
	s := PScn{Reacts: map[string]string{}, Custom: map[string][]PItem{}, Prev: "none", Lib: true}
	s.GoVer = Pick(r, []string{"1.18", "1.19", "1.20", "1.21", "1.22", "1.23", "1.24", "1.24", "1.12", "1.21.0", "1.24.2", "1.21rc2", "1.24rc1", "1.23.4"})
	s.Mod = Pick(r, []string{"example.com/m", "example.com/m", "mymod", "github.com/acme/tool/v2", "k8s.io/x"})
	p := PPkg{Dir: Pick(r, []string{"p0", "api", "v1"}), PkgTags: []PTag{{"gengo:rec", []string{""}}}}
	nt := 1 + r.Intn(3)
	id := 0
	var self string
	withMod(&s, func() { self = p.path() })
	hasLocal := false
	for i := 0; i < nt; i++ {
		name := string(rune('C' - i))
		p.Types = append(p.Types, PType{Name: name, Kind: "n"})
		key := c01Gen + "@" + self + "@" + name
		s.Reacts[key] = "ob-"
		items := genBodyItems(r, s.Mod, self, &id)
		for _, it := range items {
			if it.Path == self {
				hasLocal = true
			}
		}
		s.Custom[key] = items
	}
	if r.Chance(10) {
		// the first thing rendered is an import declaration of the generator's own (blank imports, which the import table
		// cannot express): specs repeated, standard-library and module packages mixed in one group, in any order
		first := c01Gen + "@" + self + "@" + string(rune('C'-(nt-1)))
		lib := s.Mod + "/lib"
		decl := Pick(r, []string{
			fmt.Sprintf("import (\n\t_ %q\n\t_ \"embed\"\n\t_ %q\n\t_ \"embed\"\n)\n\n", lib, lib),
			fmt.Sprintf("import (\n\t_ \"embed\"\n\t_ %q\n\t_ \"unsafe\"\n)\n\n", lib),
			fmt.Sprintf("import (\n\t_ %q\n\t_ %q\n\t_ \"time\"\n\t_ \"embed\"\n\t_ \"time\"\n)\n\n", lib, lib),
		})
		s.Custom[first] = append([]PItem{{K: "block", S: decl}}, s.Custom[first]...)
	}
	if hasLocal {
		p.Types = append(p.Types, PType{Name: "Local", Kind: "s", Tags: []PTag{{"gengo:rec", []string{"false"}}}})
	}
	if r.Chance(7) {
		// a rendering that is not Go: Execute must then fail (a file is written only when it parses) — judged by
		// "whenever Execute returns without error, each generated file parses"
		key := c01Gen + "@" + self + "@" + p.Types[r.Intn(nt)].Name
		id++
		s.Custom[key] = append(s.Custom[key], PItem{K: "block", S: fmt.Sprintf(Pick(r, []string{
			"func Broken%d() {\n", "var = %d\n", "}} // %d\n", "func (x Broken%d() {}\n", "type T%d struct { a b c }\n", "const C%d = \"open\n"}), id)})
	}
	if r.Chance(50) {
		p.Extra = append(p.Extra, pipeBase+"."+c01Gen+".go") // the output of an earlier, longer generation is in the way
	}
	s.Pkgs = []PPkg{p}
	s.Entry = []int{0}
	s.Gens = []PGen{{Name: c01Gen, CustomNew: r.Bool()}}
	return &fmtCase{S: s}
}

// genSkipFmtCase: as genFmtCase, with some of the types returning ErrSkip AFTER they rendered (what was rendered stays in
// the file, and so do the imports it referenced); at least one type renders and succeeds
func genSkipFmtCase(r *Rng) *fmtCase {
	c := genFmtCase(r)
	var keys []string
	for k := range c.S.Reacts {
		keys = append(keys, k)
	}
	sort.Strings(keys)
	for i, k := range keys {
		if i > 0 && r.Chance(55) {
			c.S.Reacts[k] = "sb-"
		}
	}
	return c
}

// importsCase: a fmtCase judged for C03 only — the import block of the written file against what its body references
type importsCase struct{ fmtCase }

func (c *importsCase) Oracle(out string) string {
	if m := c.judge().msg; strings.Contains(m, "is not imported") || strings.Contains(m, "is imported but not referenced") {
		return m
	}
	return ""
}
func (c *importsCase) Key() string {
	var b strings.Builder
	for _, it := range c.items() {
		b.WriteString(it.K + ":" + it.S + "|" + it.Path + "." + it.Name + ";")
	}
	return fmt.Sprintf("go%s %s %v %s", c.goVersion(), c.modPath(), c.S.Reacts, b.String())
}
func (c *importsCase) Shrinks() []Case {
	var out []Case
	for _, s := range c.fmtCase.Shrinks() {
		out = append(out, &importsCase{fmtCase: *s.(*fmtCase)})
	}
	return out
}

func importsBatch(cases []Case) []string {
	scns := make([]*PScn, len(cases))
	for i, c := range cases {
		scns[i] = &c.(*importsCase).S
	}
	outs := runScenarios(scns, 16)
	res := make([]string, len(cases))
	for i, c := range cases {
		fc := c.(*importsCase)
		fc.out = outs[i]
		res[i] = fc.Run()
	}
	return res
}

func fmtBatch(cases []Case) []string {
	scns := make([]*PScn, len(cases))
	for i, c := range cases {
		scns[i] = &c.(*fmtCase).S
	}
	outs := runScenarios(scns, 16)
	res := make([]string, len(cases))
	for i, c := range cases {
		fc := c.(*fmtCase)
		fc.out = outs[i]
		res[i] = fc.Run()
	}
	return res
}

// zooFmtCase: one run over packages of two modules — the main one and `zoo` (dot-less module path, its own go
// directive, reached through a replace directive).  Every written file must be a fixed point of gofumpt *for the module
// its package belongs to*: the language version decides how a legacy octal literal is spelled, the module path which
// dot-less import paths are the module's own.
type zooFmtCase struct {
	S   PScn `json:"scenario"`
	out *POut
}

func (c *zooFmtCase) ensure() {
	if c.out == nil {
		n := cloneScn(c.S)
		n.Zoo = 1
		c.out = runScenarios([]*PScn{&n}, 1)[0]
	}
}
func (c *zooFmtCase) Line() string { return "" }
func (c *zooFmtCase) Run() string {
	c.ensure()
	var files []string
	for rel := range c.out.Texts {
		files = append(files, rel)
	}
	sort.Strings(files)
	return "result=" + strings.SplitN(c.out.Result, ":", 2)[0] + " files=" + strings.Join(files, ",")
}
func (c *zooFmtCase) Oracle(out string) string {
	c.ensure()
	if c.out.Result != "ok" {
		return ""
	}
	mainGo := c.S.GoVer
	if mainGo == "" {
		mainGo = "1.24"
	}
	var mainMod string
	withMod(&c.S, func() { mainMod = pipeMod })
	if _, ok := c.out.Texts[zooFile]; !ok {
		return "no file was written for zoo/p"
	}
	var rels []string
	for rel := range c.out.Texts {
		rels = append(rels, rel)
	}
	sort.Strings(rels)
	for _, rel := range rels {
		txt := c.out.Texts[rel]
		ver, mod := mainGo, mainMod
		if strings.HasPrefix(rel, "zoo/") {
			ver, mod = c.S.ZooGo, "zoo"
		}
		if _, err := parser.ParseFile(token.NewFileSet(), "x.go", txt, parser.ParseComments); err != nil {
			return rel + " does not parse: " + err.Error()
		}
		g, err := gformat.Source([]byte(txt), gformat.Options{LangVersion: "go" + ver, ModulePath: mod})
		if err != nil {
			return "gofumpt fails on " + rel + ": " + err.Error()
		}
		if string(g) != txt {
			return fmt.Sprintf("%s is not a fixed point of gofumpt for its module (%s, go %s):\n%s", rel, mod, ver, firstDiff(txt, string(g)))
		}
	}
	return ""
}
func (c *zooFmtCase) Shrinks() []Case {
	var out []Case
	for key, items := range c.S.Custom {
		for i := range items {
			n := cloneScn(c.S)
			n.Custom[key] = append(append([]PItem{}, items[:i]...), items[i+1:]...)
			out = append(out, &zooFmtCase{S: n})
		}
	}
	return out
}
func (c *zooFmtCase) Key() string {
	n := 0
	for _, items := range c.S.Custom {
		n += len(items)
	}
	return fmt.Sprintf("go %s / zoo go %s, %d rendered items", c.S.GoVer, c.S.ZooGo, n)
}
func (c *zooFmtCase) Classes() []string {
	return []string{"main-go:" + c.S.GoVer, "zoo-go:" + c.S.ZooGo}
}
func (c *zooFmtCase) Nontrivial() bool { return true }
func (c *zooFmtCase) InDomain() bool   { return true }

func genZooFmt(r *Rng, i int) Case {
	zc := genZoo(r, i).(*zooCase)
	s := zc.S
	// the main module's package renders an octal literal and a standard library reference as well
	for _, p := range s.Pkgs {
		var key string
		withMod(&s, func() { key = "rec@" + p.path() + "@A" })
		s.Reacts[key] = "ob-"
		s.Custom[key] = []PItem{{K: "block", S: "var Mode = 0755\n"}, {K: "ref", S: "var _ = @ref\n", Path: "os", Name: "Exit"}}
	}
	hasOctal := false
	for _, it := range s.Custom["rec@zoo/p@P"] {
		hasOctal = hasOctal || strings.Contains(it.S, "0644")
	}
	if !hasOctal {
		s.Custom["rec@zoo/p@P"] = append(s.Custom["rec@zoo/p@P"], PItem{K: "block", S: "var Octal = 0644\n"})
	}
	return &zooFmtCase{S: s}
}

func init() {
	register(&Property{ID: "C01", Streams: []*Stream{
		{
			Name: "two-modules", Quick: 30, Thorough: 240, New: func() Case { return &zooFmtCase{} },
			Gen:          genZooFmt,
			ShrinkBudget: 8, MaxShrinks: 2,
			Rule: "one run over packages of two modules (the main module, go 1.12 / 1.18 / 1.21 / 1.24, and `zoo`, a module with a dot-less path and its own go directive 1.12 / 1.22 / 1.24, reached through a replace directive), every package rendering a legacy octal literal and references to standard library and module-local packages; oracle only: every written file parses and is a fixed point of gofumpt for the language version and module path of the module its own package belongs to",
		},
		{
			Name: "bodies", Quick: 1000, Thorough: 8000, New: func() Case { return &fmtCase{} },
			Gen: func(r *Rng, i int) Case {
				if i%5 == 4 {
					return genSkipFmtCase(r) // some types answer ErrSkip after they rendered: what was rendered stays
				}
				return genFmtCase(r)
			},
			BatchRun: fmtBatch, ShrinkBudget: 40, MaxShrinks: 6,
			Rule: "one package per case (directory p0 / api / v1) in modules with go directives 1.12, 1.18–1.24, patch releases (1.21.0, 1.23.4, 1.24.2) and release candidates (1.21rc2, 1.24rc1), and five module paths (with and without a dot, versioned); 1–3 types each rendering 1–6 snippets (in one case of fourteen one of the snippets is not Go — an unclosed brace, a stray token, an unterminated string: Execute must fail and write nothing; in a fifth of the cases some of the types then answer ErrSkip: what they rendered stays in the file) from a declaration grammar (functions with odd whitespace and semicolon-joined statements, documented functions with blank lines and trailing comments, single and grouped vars, consts, struct types with tags and methods, grouped types, detached line and block comments, references through PkgExpose to 12 std and module-local packages — as types, and as operands of a longer selector chain (method expressions) —, the package's own type); real Execute in child processes; compared: the written file with gofumpt∘SortImports∘parse applied to the model's assembled source (same library versions); oracle on the file: parses, opens with the generator comment, package clause, imports = referenced packages, declaration list = rendered declarations (printed spec by spec), gofmt and gofumpt fixed points",
		},
	}})
}
