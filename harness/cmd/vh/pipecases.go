package main

// Cases and generators for the pipeline properties C02, C04, C05, C06, C07, C08 (engine: pipe.go,
// oracle: pipesim.go).

import (
	"encoding/json"
	"fmt"
	"sort"
	"strings"
)

type pipeCase struct {
	S       PScn   `json:"scenario"`
	Clauses string `json:"clauses"` // which statements the oracle judges
	out     *POut
}

func (c *pipeCase) outcome() *POut {
	if c.out == nil {
		c.out = runScenarios([]*PScn{&c.S}, 1)[0]
	}
	return c.out
}

func (c *pipeCase) Run() string { return c.S.canonImpl(c.outcome()) }
func (c *pipeCase) Line() string {
	if c.S.Kill != "" || c.S.Runs > 1 {
		return ""
	}
	// with several generators of which one renders unparseable output, which other files exist
	// afterwards depends on sync.Map's visiting order (observation O8): oracle only
	nx := 0
	for _, code := range c.S.Reacts {
		if code[1] == 'x' {
			nx++
		}
	}
	if nx > 0 && len(c.S.Gens) > 1 {
		return ""
	}
	return c.S.modelLine(c.outcome())
}
func (c *pipeCase) CanonModel(m string) string { return c.S.canonModel(c.outcome(), m) }
func (c *pipeCase) Oracle(out string) string   { return c.S.judge(c.outcome(), c.Clauses) }

func cloneScn(s PScn) PScn {
	b, _ := json.Marshal(s)
	var n PScn
	json.Unmarshal(b, &n)
	if n.Reacts == nil {
		n.Reacts = map[string]string{}
	}
	return n
}

func (c *pipeCase) Shrinks() []Case {
	var out []Case
	add := func(n PScn) { out = append(out, &pipeCase{S: n, Clauses: c.Clauses}) }
	s := c.S
	// drop a package that nobody imports and that is not the only entry
	for i := len(s.Pkgs) - 1; i >= 0; i-- {
		if len(s.Pkgs) == 1 {
			break
		}
		used := false
		for j, p := range s.Pkgs {
			for _, im := range p.Imports {
				if im == i && j != i {
					used = true
				}
			}
		}
		if used || i != len(s.Pkgs)-1 {
			continue
		}
		n := cloneScn(s)
		n.Pkgs = n.Pkgs[:i]
		var e []int
		for _, x := range n.Entry {
			if x < i {
				e = append(e, x)
			}
		}
		if len(e) == 0 {
			continue
		}
		n.Entry = e
		n.Order = nil
		if len(n.Prev) > i && n.Prev != "none" && n.Prev != "corrupt" {
			n.Prev = n.Prev[:i]
		}
		for k := range n.Reacts {
			if strings.Contains(k, "@"+s.Pkgs[i].path()+"@") {
				delete(n.Reacts, k)
			}
		}
		add(n)
	}
	for i := range s.Pkgs {
		for j := range s.Pkgs[i].Types {
			n := cloneScn(s)
			n.Pkgs[i].Types = append(n.Pkgs[i].Types[:j:j], n.Pkgs[i].Types[j+1:]...)
			add(n)
		}
		for j := range s.Pkgs[i].Extra {
			n := cloneScn(s)
			n.Pkgs[i].Extra = append(n.Pkgs[i].Extra[:j:j], n.Pkgs[i].Extra[j+1:]...)
			add(n)
		}
		if len(s.Pkgs[i].PkgTags) > 0 {
			n := cloneScn(s)
			n.Pkgs[i].PkgTags = nil
			add(n)
		}
		if len(s.Pkgs[i].Imports) > 0 {
			n := cloneScn(s)
			n.Pkgs[i].Imports = nil
			add(n)
		}
		for j, t := range s.Pkgs[i].Types {
			if len(t.Tags) > 1 {
				for k := range t.Tags {
					n := cloneScn(s)
					n.Pkgs[i].Types[j].Tags = append(n.Pkgs[i].Types[j].Tags[:k:k], n.Pkgs[i].Types[j].Tags[k+1:]...)
					add(n)
				}
			}
		}
	}
	if len(s.Gens) > 1 {
		for i := range s.Gens {
			n := cloneScn(s)
			n.Gens = append(n.Gens[:i:i], n.Gens[i+1:]...)
			add(n)
		}
	}
	if len(s.Globals) > 0 {
		n := cloneScn(s)
		n.Globals = nil
		add(n)
	}
	for k := range s.Reacts {
		n := cloneScn(s)
		delete(n.Reacts, k)
		add(n)
	}
	if s.Prev != "none" && s.Prev != "" {
		n := cloneScn(s)
		n.Prev = "none"
		add(n)
	}
	if s.Force {
		n := cloneScn(s)
		n.Force = false
		add(n)
	}
	if s.Runs > 1 {
		n := cloneScn(s)
		n.Runs = s.Runs - 1
		add(n)
	}
	return out
}

func (c *pipeCase) Key() string {
	b, _ := json.Marshal(c.S)
	return string(b)
}

func (c *pipeCase) Classes() []string {
	m := map[string]bool{}
	s := c.S
	m[fmt.Sprintf("pkgs:%d", len(s.Pkgs))] = true
	m[fmt.Sprintf("gens:%d", len(s.Gens))] = true
	if s.All {
		m["All"] = true
	}
	if s.Force {
		m["Force"] = true
	}
	m["prev:"+map[bool]string{true: "letters", false: s.Prev}[s.Prev != "none" && s.Prev != "corrupt" && s.Prev != ""]] = true
	for _, p := range s.Pkgs {
		for _, t := range p.Types {
			m["kind:"+t.Kind] = true
			if len(t.Tags) > 0 {
				m["decl-tags"] = true
			}
		}
		if len(p.PkgTags) > 0 {
			m["pkg-tags"] = true
		}
		for _, e := range p.Extra {
			m["extra:"+e] = true
		}
		if len(p.Imports) > 0 {
			m["imports"] = true
		}
	}
	if s.Work {
		m["workspace"] = true
	}
	if s.Peek {
		m["peek"] = true
	}
	if len(s.Globals) > 0 {
		m["global-tags"] = true
	}
	for _, code := range s.Reacts {
		m["react:"+code] = true
	}
	if c.out != nil {
		m["result:"+strings.SplitN(c.out.Result, ":", 2)[0]] = true
	}
	var cl []string
	for k := range m {
		cl = append(cl, k)
	}
	sort.Strings(cl)
	return cl
}

func (c *pipeCase) Nontrivial() bool {
	if c.out != nil && len(c.out.Calls) > 0 {
		return true
	}
	return len(c.S.Reacts) > 0
}

func pipeBatch(cases []Case) []string {
	scns := make([]*PScn, len(cases))
	for i, c := range cases {
		scns[i] = &c.(*pipeCase).S
	}
	outs := runScenarios(scns, 16)
	res := make([]string, len(cases))
	for i, c := range cases {
		pc := c.(*pipeCase)
		pc.out = outs[i]
		res[i] = pc.S.canonImpl(outs[i])
	}
	return res
}

// ---------------------------------------------------------------- scenario generation

var pipeTagMenu = [][]PTag{
	nil, nil, nil,
	{{"gengo:rec", []string{""}}},
	{{"gengo:rec", []string{"false"}}},
	{{"gengo:rec", []string{"true"}}},
	{{"gengo:rec:sub", []string{"1"}}},
	{{"gengo:recx", []string{""}}},
	{{"gengo:recx", []string{"false"}}},
	{{"gengo:rec2", []string{""}}},
	{{"gengo:rec", []string{"fal", "se"}}},                               // repeated key: values joined give "false"
	{{"gengo:rec", []string{"false"}}, {"gengo:rec:sub", []string{"x"}}}, // the plain tag decides by itself
	{{"gengo:recx:opt", []string{"1"}}, {"other", []string{"v"}}},
	{{"gengo:re", []string{""}}}, // a prefix of the name, not the name
	{{"gengo:rec2:a", []string{""}}, {"gengo:rec", []string{""}}},
	{{"gengo:proto", []string{""}}},
	{{"gengo:proto", []string{""}}, {"gengo:rec", []string{""}}},
}

type pipeProfile struct {
	failures  bool // scripted errors / unparseable output
	extras    bool // pre-existing files
	prev      bool // previous gengo.sum variants
	locals    bool // function-local types and type parameters, blank declarations
	inOutput  bool // sometimes a type is declared in what looks like the earlier output of one of the generators
	nested    bool // sometimes a second module nested in the tree
	maxPkgs   int
	allChance int
}

func genScenario(r *Rng, pf pipeProfile) PScn {
	s := PScn{Reacts: map[string]string{}, Prev: "none"}
	k := 1 + r.Intn(pf.maxPkgs)
	gens := []PGen{{Name: "rec"}}
	if r.Chance(45) {
		gens = append(gens, PGen{Name: "recx"})
	}
	if r.Chance(20) {
		gens = append(gens, PGen{Name: "rec2"})
	}
	if r.Chance(25) {
		gens = append(gens, PGen{Name: "proto"}) // the name ends in letters of the ".go" extension
	}
	for i := range gens {
		gens[i].Alias = r.Chance(50)
		gens[i].CustomNew = r.Chance(50)
	}
	s.Gens = gens
	s.Globals = Pick(r, pipeTagMenu)
	names := []string{"D", "C", "B", "A"} // declared in descending order: a missing sort shows in every run
	for i := 0; i < k; i++ {
		p := PPkg{Dir: fmt.Sprintf("p%d", k-1-i)} // directories in descending order as well
		p.PkgTags = Pick(r, pipeTagMenu)
		nt := 1 + r.Intn(4)
		if r.Chance(8) {
			nt = 0 // a package that declares no type at all (functions and variables only; what earlier runs left is still stale)
		}
		used := map[string]bool{}
		for _, name := range names[4-nt:] {
			kind := Pick(r, []string{"n", "n", "s", "g", "i", "a"})
			p.Types = append(p.Types, PType{Name: name, Kind: kind, Tags: Pick(r, pipeTagMenu)})
			used[name] = true
		}
		if r.Chance(30) {
			// unexported twins of declared names: equal under case folding, so an ordering that folds case leaves their
			// relative order to the map
			for _, name := range names[4-nt:] {
				if r.Chance(60) {
					p.Types = append(p.Types, PType{Name: strings.ToLower(name), Kind: Pick(r, []string{"n", "s", "a"}), Tags: Pick(r, pipeTagMenu)})
				}
			}
		}
		if pf.locals && r.Chance(45) {
			// a function-local type or a type parameter, often sharing the name of a package-level type
			n := Pick(r, []string{"A", "B", "L", "Z"})
			kind := Pick(r, []string{"l", "l", "p"})
			t := PType{Name: n, Kind: kind, Tags: Pick(r, pipeTagMenu)}
			// both before and after the package-level declarations
			if r.Bool() {
				p.Types = append([]PType{t}, p.Types...)
			} else {
				p.Types = append(p.Types, t)
			}
		}
		if pf.locals && r.Chance(25) {
			// blank declarations with enabling tags: two types and two constants named `_`
			t := PType{Name: "_", Kind: "b", Tags: Pick(r, pipeTagMenu)}
			if r.Bool() {
				p.Types = append([]PType{t}, p.Types...)
			} else {
				p.Types = append(p.Types, t)
			}
		}
		if r.Chance(30) {
			p.Extra = append(p.Extra, "zdoc.go") // part of the package-level tags stands in a second file's package comment
			p.Conflict = r.Bool()                // … and the first file may say something else about the same key
		}
		if pf.inOutput && r.Chance(30) {
			// a package-level type declared in a file named like the output of one of the generators (what a generator that
			// emits type declarations leaves for the next run): a package-level type like any other
			var cand []int
			for i, t := range p.Types {
				if strings.Contains("nsgia", t.Kind) {
					cand = append(cand, i)
				}
			}
			if len(cand) > 0 {
				f := pipeBase + "." + gens[r.Intn(len(gens))].Name + ".go"
				p.Types[cand[r.Intn(len(cand))]].In = f
				p.Extra = append(p.Extra, f)
			}
		}
		if pf.extras {
			for _, e := range []string{pipeBase + ".old.go", pipeBase + "x.go", pipeBase + ".proto.go", pipeBase + ".rec.go", pipeBase + "_test.go", pipeBase + ".recx.go", "notes.txt", pipeBase + ".txt", "extra.go", "linked.go"} {
				if r.Chance(35) {
					p.Extra = append(p.Extra, e)
				}
			}
			// names that differ from an output's pattern only in the case of letters: `ZZ_generated.notes.go` and
			// `Zz_Generated.go` are the user's (the base name is matched as it is written); `zz_generated.Old2.go` is an output
			// of an earlier generation and stale.  (Two names of one directory that differ in case only are left out: the go
			// tool refuses such a package — "case-insensitive file name collision".)
			for _, e := range []string{"ZZ_generated.notes.go", "Zz_Generated.go", pipeBase + ".Old2.go", pipeBase + ".assets/"} {
				if r.Chance(12) {
					p.Extra = append(p.Extra, e)
				}
			}
			p.LineDir = r.Chance(25)
		}
		p.At = r.Chance(15) // all tags of the package written with the other marker
		s.Pkgs = append(s.Pkgs, p)
	}
	s.Peek = r.Chance(30)
	// imports: later index may be imported by earlier index (acyclic)
	for i := range s.Pkgs {
		for j := i + 1; j < len(s.Pkgs); j++ {
			if r.Chance(35) {
				s.Pkgs[i].Imports = append(s.Pkgs[i].Imports, j)
			}
		}
	}
	// entrypoints
	for i := range s.Pkgs {
		if i == 0 || r.Chance(55) {
			s.Entry = append(s.Entry, i)
		}
	}
	s.All = r.Chance(pf.allChance)
	s.Force = r.Chance(15)
	s.Nested = pf.nested && r.Chance(30)
	// reactions
	for _, p := range s.Pkgs {
		for _, t := range p.Types {
			for _, g := range s.Gens {
				if r.Chance(30) {
					continue
				}
				codes := []string{"ov-", "ov-", "ov-", "on-", "sn-", "in-", "iv-", "ovd", "ond", "sv-", "svd", "or-"}
				if pf.failures && r.Chance(14) {
					codes = []string{"fn-", "fv-", "ove", "ox-", "one"}
				}
				s.Reacts[g.Name+"@"+p.path()+"@"+t.Name] = Pick(r, codes)
			}
		}
	}
	if pf.prev {
		switch r.Intn(5) {
		case 0:
			s.Prev = "none"
		case 1:
			s.Prev = "corrupt"
		default:
			var b strings.Builder
			for range s.Pkgs {
				b.WriteByte("cccsm"[r.Intn(5)])
			}
			s.Prev = b.String()
		}
	}
	return s
}

func pipeStream(name string, quick, thorough int, clauses string, pf pipeProfile, rule string, tweak func(r *Rng, s *PScn)) *Stream {
	return &Stream{
		Name: name, Quick: quick, Thorough: thorough,
		New: func() Case { return &pipeCase{} },
		Gen: func(r *Rng, i int) Case {
			s := genScenario(r, pf)
			if tweak != nil {
				tweak(r, &s)
			}
			return &pipeCase{S: s, Clauses: clauses}
		},
		BatchRun: pipeBatch, ShrinkBudget: 80, MaxShrinks: 5,
		Rule: rule,
	}
}

const pipeRuleCommon = "synthetic modules of 1–4 packages (directories and types declared in descending order), defined scalar/struct/generic/interface types, aliases, tags (written with `+`, in one package of seven with `@`) at global / package-doc (in a third of the packages spread over the package comments of two files, which in half of those say different things about one key: the file later in name order wins) / declaration level from a menu incl. repeated keys and names that are prefixes of one another, 1–4 recording generators named rec, recx, rec2 and proto (with/without alias hook, reflect.New or custom New, a call counter and a helper-once flag rendered into the output; one reaction in twelve resolves the names of foreign types through the file's namer and renders nothing) with scripted reactions per (generator, package, type); real NewContext/Execute in fresh child processes; "

func init() {
	register(&Property{ID: "C06", Streams: []*Stream{
		pipeStream("dispatch", 500, 3600, "calls", pipeProfile{locals: true, inOutput: true, maxPkgs: 3, allChance: 50},
			pipeRuleCommon+"plus function-local types and type parameters sharing names with package-level types, blank (`_`) type and constant declarations carrying enabling tags, and types declared in a file named like the earlier output of one of the run's generators; compared with the model: result, files, sum, call log in order, rendered text; oracle: call log and rendered text prescribed by the statement (sorted enabled package-level defined types, aliases to the alias hook, callbacks once each after the calls); non-trivial = at least one call was made", nil),
		pipeStream("dispatch-failing", 120, 900, "calls errors", pipeProfile{locals: false, failures: true, maxPkgs: 3, allChance: 50},
			pipeRuleCommon+"with scripted generator errors, failing deferred callbacks and unparseable output", nil),
	}})
	register(&Property{ID: "C07", Streams: []*Stream{
		pipeStream("files", 600, 4000, "files other sum", pipeProfile{extras: true, prev: true, failures: true, nested: true, maxPkgs: 4, allChance: 60},
			pipeRuleCommon+"in a third of the scenarios a second module nested in the tree whose path extends the main module's (own go.mod, replace directive, imported by the first package, holding a tagged type and a <base>.other.go of its own); pre-existing user files (one of them possibly a symbolic link to a source file outside the package directory), look-alikes (zz_generatedx.go, zz_generated_test.go, zz_generated.txt), stale outputs, own old outputs, in a quarter of the packages these files open with a //line directive ahead of the package clause (naming a template, or the output file of a generator in the neighbouring package), All on/off, previous gengo.sum none/corrupt/correct/stale/missing; oracle: the whole module tree hashed before and after — only <base>.* files of processed packages and gengo.sum under All may differ, a generator's file exists iff it rendered something (ErrIgnore with nothing rendered keeps the previous file), stale outputs are removed", nil),
	}})
}
