// go2lean translates a fixed list of small, pure functions of the checkout under test into Lean 4 definitions
// (lean/Gengo/Gen/Code.lean), written against the run-time library lean/Gengo/Model/GoRt.lean.  It runs on every
// check; lean/Gengo/Props/Tr*.lean proves each translated function equal to the hand-written model that the
// property theorems are about, so those theorems are re-checked against what the source says now.
//
// The translation is a plain syntax-directed compilation of a Go subset to first-order functional code:
//   - straight-line code becomes a chain of `let`s (re-assignment is shadowing);
//   - `if` without control transfer becomes `let (assigned vars) ← if … then … else …`; an `if` one of whose arms
//     always leaves (return / continue / break) takes the rest of the block into the other arm;
//   - every loop becomes an auxiliary recursive definition over the ranged list (or over fuel, for three-clause
//     loops) whose parameters are the variables the body assigns; `continue` is the recursive call, `break` returns
//     the variables, `return` inside a loop is the `Ctl.ret` outcome;
//   - indexing, slicing and calls to other translated functions are monadic (`Except Err`), everything else pure.
//
// Anything outside the subset is an error: the check then reports that the tie is broken (DESIGN.md 3a).
//
// usage: go2lean <repo> <targets.json> <lean/Gengo/Gen> <report.json>   (writes Code/<group>.lean and Code.lean)
package main

import (
	"bytes"
	"encoding/json"
	"fmt"
	"go/ast"
	"go/constant"
	"go/printer"
	"go/token"
	"go/types"
	"os"
	"path/filepath"
	"sort"
	"strings"

	"golang.org/x/tools/go/packages"
)

type target struct {
	Pkg         string               `json:"pkg"`
	Func        string               `json:"func"` // "Name" or "Recv.Name"
	Lean        string               `json:"lean"`
	Group       string               `json:"group"` // the translated function goes to lean/Gengo/Gen/Code/<group>.lean: a function that leaves the subset takes down its own group only
	DropParams  []string             `json:"drop_params"`
	ExtraParams []string             `json:"extra_params"` // Lean binders, e.g. "(gName : Str)"
	ExtraArgs   []string             `json:"extra_args"`   // the names of those binders, passed on to loops and callees
	Abstract    map[string]string    `json:"abstract"`     // Go expression text → Lean expression
	RecvFields  map[string]string    `json:"recv_fields"`  // receiver field → Lean name (must be in extra_params)
	Types       map[string]string    `json:"types"`        // Go named type → Lean type
	ErrorResult bool                 `json:"error_result"` // (T, error) → Option T
	Ctors       map[string]string    `json:"ctors"`        // qualified function → "pair": a constructor call becomes the tuple of its arguments
	Fuel        map[string]string    `json:"fuel"`         // loop name → Lean Nat expression
	Funcs       map[string]string    `json:"funcs"`        // called function (as written) → name of a Lean parameter of type `List Str → M Str` standing for it (its arguments are handed over as one list)
	Recursive   bool                 `json:"recursive"`    // the function calls itself on smaller arguments that are not structurally smaller: it takes fuel first
	Structs     map[string]structCfg `json:"structs"`      // Go struct type → Lean constructor and the order of its fields
	Imports     []string             `json:"imports"`      // further Lean modules the group's file imports
	IterBody    bool                 `json:"iter_body"`    // the function returns an iterator: translate the body of the innermost function literal with a `yield` parameter; `if !yield(x) { return }` appends x to the fragments, which are the result (a consumer that never stops early)
	ResultRecv  bool                 `json:"result_recv"`  // a method without results that writes to its (pointer) receiver: the receiver's final value is the result
	FuncLit     int                  `json:"func_lit"`     // n > 0: what is translated is the n-th function literal of the body (in source order) — a closure invoked in place, say —, over the parameters of the function and its own
	Curried     bool                 `json:"curried"`      // the function's body is `return func(…) … { … }`: the literal's body is translated, over the parameters of both
	OutParams   []string             `json:"out_params"`   // parameters the function writes to (an io.Writer): threaded through as text, returned as the result
	Props       []string             `json:"props"`
}

type structCfg struct {
	Lean   string   `json:"lean"`   // the Lean type
	Ctor   string   `json:"ctor"`   // its constructor
	Fields []string `json:"fields"` // Go field names in constructor order
}

type config struct {
	Targets []target `json:"targets"`
}

type unsupported struct{ msg string }

func bad(format string, a ...any) { panic(unsupported{fmt.Sprintf(format, a...)}) }

type fn struct {
	t          target
	pkg        *packages.Package
	decl       *ast.FuncDecl
	info       *types.Info
	fset       *token.FileSet
	names      map[types.Object]string
	taken      map[string]bool
	aux        []string // auxiliary definitions (loops), in emission order
	loopN      int
	tmpN       int
	all        map[string]*target // translated functions by "pkgpath.Name"
	resTy      string             // Lean type of the function's result
	named      []string           // named results (Lean names)
	leanFn     string
	outVar     *types.Var // iter_body: the fragments emitted so far
	yield      *types.Var
	curried    *ast.FuncLit // curried: the function literal the function returns
	curClosure *closure
	inAux      bool                    // compiling the body of a loop or closure definition (self-calls go through the self__ parameter)
	closures   map[*types.Var]*closure // local function literals
}

// closure: `name := func(params) error { … }` — an auxiliary definition over the variables it captures; it returns the new
// values of the captured variables it assigns, or none for a non-nil error
type closure struct {
	isBool bool // returns bool instead of error: the definition returns the answer together with the captured state
	name   string
	lit    *ast.FuncLit
	ro     []*types.Var
	state  []*types.Var
	params []*types.Var
}

var leanKeywords = map[string]bool{"prefix": true, "end": true, "from": true, "at": true, "fun": true, "do": true, "then": true, "else": true, "if": true,
	"let": true, "have": true, "show": true, "match": true, "with": true, "in": true, "open": true, "local": true, "def": true, "theorem": true,
	"namespace": true, "section": true, "variable": true, "universe": true, "instance": true, "class": true, "structure": true, "inductive": true,
	"where": true, "by": true, "for": true, "return": true, "mut": true, "Type": true, "Prop": true, "Sort": true, "infix": true, "postfix": true,
	"notation": true, "macro": true, "syntax": true, "scoped": true, "omit": true, "private": true, "protected": true, "partial": true, "unsafe": true,
	"mutual": true, "import": true, "export": true, "deriving": true, "extends": true, "using": true, "calc": true, "try": true, "catch": true,
	"finally": true, "unless": true, "break": true, "continue": true, "nomatch": true, "nofun": true, "abbrev": true, "example": true, "axiom": true,
	"opaque": true, "attribute": true, "set_option": true, "universe_": true, "rest__": true, "fuel__": true, "len": true, "idx": true}

func (f *fn) nameOf(obj types.Object) string {
	if n, ok := f.names[obj]; ok {
		return n
	}
	base := obj.Name()
	if leanKeywords[base] {
		base += "_"
	}
	n := base
	for i := 2; f.taken[n]; i++ {
		n = fmt.Sprintf("%s_%d", base, i)
	}
	f.taken[n] = true
	f.names[obj] = n
	return n
}

func (f *fn) tmp() string {
	f.tmpN++
	return fmt.Sprintf("t%d__", f.tmpN)
}

func (f *fn) text(n ast.Node) string {
	var b bytes.Buffer
	printer.Fprint(&b, f.fset, n)
	return strings.Join(strings.Fields(b.String()), " ")
}

// ---------------------------------------------------------------- types

func (f *fn) leanType(t types.Type) string {
	if n, ok := t.(*types.Named); ok {
		if lt, ok := f.t.Types[n.Obj().Name()]; ok {
			return lt
		}
		if sc, ok := f.t.Structs[n.Obj().Name()]; ok {
			return sc.Lean
		}
		q := n.Obj().Pkg().Path() + "." + n.Obj().Name()
		switch q {
		case "bytes.Buffer", "strings.Builder", "io.Writer":
			return "Str"
		}
	}
	if a, ok := t.(*types.Alias); ok {
		return f.leanType(types.Unalias(a))
	}
	switch u := t.Underlying().(type) {
	case *types.Basic:
		switch u.Kind() {
		case types.String, types.UntypedString:
			return "Str"
		case types.Bool, types.UntypedBool:
			return "Bool"
		case types.Int, types.UntypedInt, types.Int64:
			return "Int"
		case types.Uint8, types.Int32, types.UntypedRune:
			return "Char"
		}
	case *types.Slice:
		return "(List " + f.leanType(u.Elem()) + ")"
	case *types.Map:
		return "(List (" + f.leanType(u.Key()) + " × " + f.leanType(u.Elem()) + "))"
	case *types.Pointer:
		return f.leanType(u.Elem())
	}
	bad("type %s is outside the translated subset", t)
	return ""
}

func (f *fn) zero(t types.Type) string {
	lt := f.leanType(t)
	switch {
	case lt == "Str" || strings.HasPrefix(lt, "(List "):
		return "([] : " + lt + ")"
	case lt == "Bool":
		return "false"
	case lt == "Int":
		return "(0 : Int)"
	case lt == "Char":
		return "(Char.ofNat 0)"
	case strings.HasPrefix(lt, "(Option "):
		return "(none : " + lt + ")"
	}
	if p, ok := t.(*types.Pointer); ok {
		t = p.Elem()
	}
	if n, ok := t.(*types.Named); ok {
		if sc, ok := f.t.Structs[n.Obj().Name()]; ok {
			if st, ok := n.Underlying().(*types.Struct); ok {
				return f.structLit(sc, st, map[string]string{})
			}
		}
	}
	bad("no zero value for %s", t)
	return ""
}

func (f *fn) structOf(t types.Type) (structCfg, *types.Struct, bool) {
	if p, ok := t.(*types.Pointer); ok {
		t = p.Elem()
	}
	if n, ok := t.(*types.Named); ok {
		if sc, ok := f.t.Structs[n.Obj().Name()]; ok {
			if st, ok := n.Underlying().(*types.Struct); ok {
				return sc, st, true
			}
		}
	}
	return structCfg{}, nil, false
}

// structLit: the constructor applied to the given fields, the others zero
func (f *fn) structLit(sc structCfg, st *types.Struct, vals map[string]string) string {
	var args []string
	for _, name := range sc.Fields {
		if v, ok := vals[name]; ok {
			args = append(args, v)
			continue
		}
		found := false
		for i := 0; i < st.NumFields(); i++ {
			if st.Field(i).Name() == name {
				args = append(args, f.zero(st.Field(i).Type()))
				found = true
			}
		}
		if !found {
			bad("struct field %s", name)
		}
	}
	return "(" + sc.Ctor + " " + strings.Join(args, " ") + ")"
}

// fieldGet: `x.F` as a match on the constructor
func (f *fn) fieldGet(sc structCfg, x, field string) string {
	var pats []string
	hit := ""
	for i, name := range sc.Fields {
		v := fmt.Sprintf("f%d__", i)
		if name == field {
			hit = v
			pats = append(pats, v)
		} else {
			pats = append(pats, "_")
		}
	}
	if hit == "" {
		bad("field %s", field)
	}
	return "(match " + x + " with | " + sc.Ctor + " " + strings.Join(pats, " ") + " => " + hit + ")"
}

// fieldSet: the struct with field F replaced
func (f *fn) fieldSet(sc structCfg, x, field, val string) string {
	var pats, args []string
	for i, name := range sc.Fields {
		v := fmt.Sprintf("f%d__", i)
		if name == field {
			pats = append(pats, "_")
			args = append(args, "("+val+")")
		} else {
			pats = append(pats, v)
			args = append(args, v)
		}
	}
	return "(match " + x + " with | " + sc.Ctor + " " + strings.Join(pats, " ") + " => " + sc.Ctor + " " + strings.Join(args, " ") + ")"
}

func charLit(r rune) string {
	if r >= 0x20 && r < 0x7f && r != '\'' && r != '\\' {
		return "'" + string(r) + "'"
	}
	return fmt.Sprintf("(Char.ofNat %d)", r)
}

func strLit(s string) string {
	if s == "" {
		return "([] : Str)"
	}
	var parts []string
	for _, r := range s {
		parts = append(parts, charLit(r))
	}
	return "([" + strings.Join(parts, ",") + "] : Str)"
}

func (f *fn) constLit(tv types.TypeAndValue) string {
	lt := f.leanType(tv.Type)
	switch lt {
	case "Str":
		return strLit(constant.StringVal(tv.Value))
	case "Bool":
		if constant.BoolVal(tv.Value) {
			return "true"
		}
		return "false"
	case "Int":
		n, _ := constant.Int64Val(constant.ToInt(tv.Value))
		if n < 0 {
			return fmt.Sprintf("(-%d : Int)", -n)
		}
		return fmt.Sprintf("(%d : Int)", n)
	case "Char":
		n, _ := constant.Int64Val(constant.ToInt(tv.Value))
		return charLit(rune(n))
	}
	bad("constant of type %s", tv.Type)
	return ""
}

// ---------------------------------------------------------------- expressions

func isBuilder(t types.Type) bool {
	if p, ok := t.(*types.Pointer); ok {
		t = p.Elem()
	}
	if n, ok := t.(*types.Named); ok && n.Obj().Pkg() != nil {
		q := n.Obj().Pkg().Path() + "." + n.Obj().Name()
		return q == "bytes.Buffer" || q == "strings.Builder"
	}
	return false
}

func (f *fn) callee(call *ast.CallExpr) (string, *types.Func) {
	var id *ast.Ident
	switch g := call.Fun.(type) {
	case *ast.Ident:
		id = g
	case *ast.SelectorExpr:
		id = g.Sel
	}
	if id == nil {
		return "", nil
	}
	if b, ok := f.info.Uses[id].(*types.Builtin); ok {
		return "builtin." + b.Name(), nil
	}
	fo, _ := f.info.Uses[id].(*types.Func)
	if fo == nil {
		return "", nil
	}
	if sig := fo.Type().(*types.Signature); sig.Recv() != nil {
		rt := sig.Recv().Type()
		if p, ok := rt.(*types.Pointer); ok {
			rt = p.Elem()
		}
		if n, ok := rt.(*types.Named); ok && n.Obj().Pkg() != nil {
			return n.Obj().Pkg().Path() + "." + n.Obj().Name() + "." + fo.Name(), fo
		}
		return "?." + fo.Name(), fo
	}
	if fo.Pkg() == nil {
		return fo.Name(), fo
	}
	return fo.Pkg().Path() + "." + fo.Name(), fo
}

// expr compiles e to a pure Lean expression; effects (indexing, slicing, calls of translated functions) are
// bound to temporaries by the lines appended to *pre.
func (f *fn) expr(e ast.Expr, pre *[]string) string {
	if r, ok := f.t.Abstract[f.text(e)]; ok {
		return r
	}
	if tv, ok := f.info.Types[e]; ok && tv.Value != nil {
		if _, isLit := e.(*ast.BasicLit); isLit || true {
			return f.constLit(tv)
		}
	}
	switch x := e.(type) {
	case *ast.ParenExpr:
		return "(" + f.expr(x.X, pre) + ")"
	case *ast.Ident:
		switch x.Name {
		case "true", "false":
			return x.Name
		case "nil":
			tv := f.info.Types[e]
			_ = tv
			bad("bare nil at %s", f.fset.Position(e.Pos()))
		}
		obj := f.info.Uses[x]
		if obj == nil {
			obj = f.info.Defs[x]
		}
		if v, ok := obj.(*types.Var); ok {
			if v.Parent() == v.Pkg().Scope() {
				bad("package-level variable %s", x.Name)
			}
			return f.nameOf(v)
		}
		bad("identifier %s", x.Name)
	case *ast.UnaryExpr:
		switch x.Op {
		case token.NOT:
			return "(!" + f.expr(x.X, pre) + ")"
		case token.SUB:
			return "(-" + f.expr(x.X, pre) + ")"
		case token.AND:
			if cl, ok := x.X.(*ast.CompositeLit); ok && isBuilder(f.info.TypeOf(cl)) {
				return "([] : Str)"
			}
			if cl, ok := x.X.(*ast.CompositeLit); ok {
				if _, _, ok := f.structOf(f.info.TypeOf(cl)); ok {
					return f.expr(cl, pre) // a pointer to a struct is the struct: no aliasing in the translated subset
				}
			}
		}
		bad("unary %s", x.Op)
	case *ast.BinaryExpr:
		switch x.Op {
		case token.LAND, token.LOR:
			l := f.expr(x.X, pre)
			var pre2 []string
			r := f.expr(x.Y, &pre2)
			if len(pre2) == 0 {
				if x.Op == token.LAND {
					return "(" + l + " && " + r + ")"
				}
				return "(" + l + " || " + r + ")"
			}
			// the right operand has effects: it is evaluated only when the left one does not decide
			t := f.tmp()
			*pre = append(*pre, "let "+t+" : Bool ←")
			short := "pure false"
			cond := l
			if x.Op == token.LOR {
				short = "pure true"
				cond = "(!" + l + ")"
			}
			*pre = append(*pre, "  if "+cond+" then do")
			for _, p := range pre2 {
				*pre = append(*pre, "    "+p)
			}
			*pre = append(*pre, "    pure "+r, "  else", "    "+short)
			return t
		}
		if id, ok := x.Y.(*ast.Ident); ok && id.Name == "nil" && (x.Op == token.EQL || x.Op == token.NEQ) {
			// a nilable pointer is an Option
			if lt := f.leanType(f.info.TypeOf(x.X)); strings.HasPrefix(lt, "(Option ") {
				if x.Op == token.EQL {
					return "(" + f.expr(x.X, pre) + ").isNone"
				}
				return "(" + f.expr(x.X, pre) + ").isSome"
			}
			bad("comparison with nil of %s", f.text(x.X))
		}
		l := f.expr(x.X, pre)
		r := f.expr(x.Y, pre)
		lt := f.leanType(f.info.TypeOf(x.X))
		switch x.Op {
		case token.ADD:
			if lt == "Str" {
				return "(" + l + " ++ " + r + ")"
			}
			if lt == "Int" {
				return "(" + l + " + " + r + ")"
			}
		case token.SUB:
			if lt == "Int" {
				return "(" + l + " - " + r + ")"
			}
		case token.EQL:
			return "(" + l + " == " + r + ")"
		case token.NEQ:
			return "(" + l + " != " + r + ")"
		case token.LSS, token.GTR, token.LEQ, token.GEQ:
			if lt == "Int" {
				op := map[token.Token]string{token.LSS: "<", token.GTR: ">", token.LEQ: "≤", token.GEQ: "≥"}[x.Op]
				return "(decide (" + l + " " + op + " " + r + "))"
			}
		}
		bad("binary %s on %s", x.Op, lt)
	case *ast.BasicLit:
		bad("literal %s without constant value", x.Value)
	case *ast.CompositeLit:
		t := f.info.TypeOf(x)
		if isBuilder(t) {
			return "([] : Str)"
		}
		if sc, st, ok := f.structOf(t); ok {
			vals := map[string]string{}
			for _, el := range x.Elts {
				kv, ok := el.(*ast.KeyValueExpr)
				if !ok {
					bad("positional struct literal")
				}
				vals[kv.Key.(*ast.Ident).Name] = f.expr(kv.Value, pre)
			}
			return f.structLit(sc, st, vals)
		}
		switch t.Underlying().(type) {
		case *types.Slice:
			var el []string
			for _, a := range x.Elts {
				if _, kv := a.(*ast.KeyValueExpr); kv {
					bad("keyed slice literal")
				}
				el = append(el, f.expr(a, pre))
			}
			return "([" + strings.Join(el, ", ") + "] : " + f.leanType(t) + ")"
		case *types.Map:
			if len(x.Elts) == 0 {
				return "([] : " + f.leanType(t) + ")"
			}
		}
		bad("composite literal of %s", t)
	case *ast.IndexExpr:
		xt := f.info.TypeOf(x.X)
		switch u := xt.Underlying().(type) {
		case *types.Map:
			return "(Go.mapGet " + f.expr(x.X, pre) + " " + f.expr(x.Index, pre) + " " + f.zero(u.Elem()) + ")"
		case *types.Slice, *types.Basic:
			a := f.expr(x.X, pre)
			i := f.expr(x.Index, pre)
			t := f.tmp()
			*pre = append(*pre, "let "+t+" : "+f.leanType(f.info.TypeOf(e))+" ← Go.idx "+a+" "+i)
			return t
		}
		bad("index into %s", xt)
	case *ast.SliceExpr:
		if x.Slice3 {
			bad("three-index slice")
		}
		a := f.expr(x.X, pre)
		lo := "(0 : Int)"
		if x.Low != nil {
			lo = f.expr(x.Low, pre)
		}
		hi := "(Go.len " + a + ")"
		if x.High != nil {
			hi = f.expr(x.High, pre)
		}
		t := f.tmp()
		*pre = append(*pre, "let "+t+" : "+f.leanType(f.info.TypeOf(e))+" ← Go.slice "+a+" "+lo+" "+hi)
		return t
	case *ast.SelectorExpr:
		if sc, _, ok := f.structOf(f.info.TypeOf(x.X)); ok {
			if _, isField := f.info.Selections[x]; isField {
				return f.fieldGet(sc, f.expr(x.X, pre), x.Sel.Name)
			}
		}
		if id, ok := x.X.(*ast.Ident); ok && f.decl.Recv != nil && len(f.decl.Recv.List[0].Names) == 1 && id.Name == f.decl.Recv.List[0].Names[0].Name {
			if n, ok := f.t.RecvFields[x.Sel.Name]; ok {
				return n
			}
		}
		bad("selector %s", f.text(x))
	case *ast.CallExpr:
		return f.call(x, pre)
	}
	bad("expression %s (%T) at %s", f.text(e), e, f.fset.Position(e.Pos()))
	return ""
}

// selfRef: how a recursive function refers to itself — with the remaining fuel in its own body, through the parameter
// `self__` inside the auxiliary definitions (loops, closures)
func (f *fn) selfRef() string {
	if f.inAux {
		return "self__"
	}
	return "(" + f.leanFn + " " + strings.Join(append(append([]string{}, f.t.ExtraArgs...), "fuel__"), " ") + ")"
}

// paramVars: the receiver (when it is a translated struct) and the parameters that are kept
func (f *fn) paramVars() []*types.Var {
	sig := f.info.Defs[f.decl.Name].(*types.Func).Type().(*types.Signature)
	var vs []*types.Var
	if f.decl.Recv != nil && len(f.decl.Recv.List[0].Names) == 1 {
		if rv, ok := f.info.Defs[f.decl.Recv.List[0].Names[0]].(*types.Var); ok && !f.dropped(rv) {
			vs = append(vs, rv)
		}
	}
	for i := 0; i < sig.Params().Len(); i++ {
		if !f.dropped(sig.Params().At(i)) {
			vs = append(vs, sig.Params().At(i))
		}
	}
	if f.curried != nil {
		ls := f.info.TypeOf(f.curried).(*types.Signature)
		for i := 0; i < ls.Params().Len(); i++ {
			if !f.dropped(ls.Params().At(i)) {
				vs = append(vs, ls.Params().At(i))
			}
		}
	}
	return vs
}

func (f *fn) selfType() string {
	var ts []string
	for _, v := range f.paramVars() {
		ts = append(ts, f.leanType(v.Type()))
	}
	return strings.Join(append(ts, "M "+f.resTy), " → ")
}

func (f *fn) args(call *ast.CallExpr, pre *[]string) []string {
	var out []string
	for _, a := range call.Args {
		out = append(out, f.expr(a, pre))
	}
	return out
}

func (f *fn) call(x *ast.CallExpr, pre *[]string) string {
	// conversions
	if tv, ok := f.info.Types[x.Fun]; ok && tv.IsType() {
		from := f.leanType(f.info.TypeOf(x.Args[0]))
		to := f.leanType(tv.Type)
		if from == to || (from == "(List Char)" && to == "Str") || (from == "Str" && to == "(List Char)") {
			return f.expr(x.Args[0], pre)
		}
		bad("conversion %s", f.text(x))
	}
	written := ""
	if id, ok := x.Fun.(*ast.Ident); ok {
		written = id.Name
	} else if sel, ok := x.Fun.(*ast.SelectorExpr); ok {
		if q, ok := sel.X.(*ast.Ident); ok {
			if _, isPkg := f.info.Uses[q].(*types.PkgName); isPkg {
				written = q.Name + "." + sel.Sel.Name // a function of another package, as written
			}
		}
	}
	if written != "" {
		if pn, ok := f.t.Funcs[written]; ok {
			// a callee that is not translated: a parameter of the translation (the theorems hold for every such function)
			var arg string
			if x.Ellipsis.IsValid() && len(x.Args) == 1 {
				arg = f.expr(x.Args[0], pre)
			} else if !x.Ellipsis.IsValid() {
				arg = "[" + strings.Join(f.args(x, pre), ", ") + "]"
			} else {
				bad("call %s", f.text(x))
			}
			t := f.tmp()
			*pre = append(*pre, "let "+t+" : "+f.leanType(f.info.TypeOf(x))+" ← "+pn+" "+arg)
			return t
		}
	}
	name, fo := f.callee(x)
	switch name {
	case "slices.Index":
		a := f.args(x, pre)
		return "(Go.sliceIndex " + a[0] + " " + a[1] + ")"
	case "builtin.len":
		return "(Go.len " + f.expr(x.Args[0], pre) + ")"
	case "builtin.append":
		base := f.expr(x.Args[0], pre)
		if x.Ellipsis.IsValid() {
			return "(" + base + " ++ " + f.expr(x.Args[1], pre) + ")"
		}
		var el []string
		for _, a := range x.Args[1:] {
			el = append(el, f.expr(a, pre))
		}
		return "(" + base + " ++ [" + strings.Join(el, ", ") + "])"
	case "builtin.make":
		t := f.info.TypeOf(x)
		if _, isMap := t.Underlying().(*types.Map); isMap {
			return "([] : " + f.leanType(t) + ")"
		}
		if len(x.Args) == 2 {
			if tv := f.info.Types[x.Args[1]]; tv.Value != nil && constant.Sign(tv.Value) == 0 {
				return "([] : " + f.leanType(t) + ")"
			}
		}
		bad("make %s", f.text(x))
	case "strings.Index":
		a := f.args(x, pre)
		return "(Go.strIndex " + a[0] + " " + a[1] + ")"
	case "strings.LastIndex":
		a := f.args(x, pre)
		return "(Go.strLastIndex " + a[0] + " " + a[1] + ")"
	case "strings.HasPrefix":
		a := f.args(x, pre)
		return "(Go.hasPrefix " + a[0] + " " + a[1] + ")"
	case "strings.Join":
		a := f.args(x, pre)
		return "(Go.strJoin " + a[0] + " " + a[1] + ")"
	case "bytes.Fields":
		a := f.args(x, pre)
		return "(Go.bytesFields " + a[0] + ")"
	case "strings.Split":
		a := f.args(x, pre)
		return "(Go.strSplit " + a[0] + " " + a[1] + ")"
	case "strings.Trim":
		a := f.args(x, pre)
		return "(Go.strTrim " + a[0] + " " + a[1] + ")"
	case "strings.Map":
		// strings.Map(<function literal>, s): the mapping is the parameter `sanitize` of the target, applied to s
		return "(sanitize " + f.expr(x.Args[1], pre) + ")"
	case "strings.ToLower":
		// the case mapping is the parameter `strToLower` of the target
		a := f.args(x, pre)
		return "(strToLower " + a[0] + ")"
	case "strings.TrimSpace":
		a := f.args(x, pre)
		return "(Go.trimSpace " + a[0] + ")"
	case "strings.CutPrefix":
		a := f.args(x, pre)
		return "(Go.cutPrefix " + a[0] + " " + a[1] + ")"
	case "unicode.IsLower", "unicode.IsUpper", "unicode.IsDigit":
		a := f.args(x, pre)
		return "(p.is" + name[10:] + " " + a[0] + ")"
	case "unicode/utf8.ValidString":
		return "true" // a string is the list of its code points
	case "bytes.NewBuffer":
		if id, ok := x.Args[0].(*ast.Ident); ok && id.Name == "nil" {
			return "([] : Str)"
		}
	case "bytes.Buffer.String", "strings.Builder.String", "bytes.Buffer.Bytes":
		return f.expr(x.Fun.(*ast.SelectorExpr).X, pre)
	case "bytes.Buffer.Len", "strings.Builder.Len":
		return "(Go.len " + f.expr(x.Fun.(*ast.SelectorExpr).X, pre) + ")"
	case "fmt.Sprintf":
		return f.sprintf(x.Args, pre)
	case "slices.Sorted":
		if in, ok := x.Args[0].(*ast.CallExpr); ok {
			if n2, _ := f.callee(in); n2 == "maps.Keys" {
				return "(Go.sortStrs ((" + f.expr(in.Args[0], pre) + ").map (·.1)))"
			}
		}
	}
	if f.t.Ctors[name] == "pair" {
		return "(" + strings.Join(f.args(x, pre), ", ") + ")"
	}
	if fo != nil && f.t.Recursive && fo == f.info.Defs[f.decl.Name] {
		a := f.args(x, pre)
		if fo.Type().(*types.Signature).Recv() != nil {
			a = append([]string{f.expr(x.Fun.(*ast.SelectorExpr).X, pre)}, a...)
		}
		tmp := f.tmp()
		*pre = append(*pre, "let "+tmp+" : "+f.resTy+" ← "+f.selfRef()+" "+strings.Join(a, " "))
		return tmp
	}
	if fo != nil {
		if t, ok := f.all[name]; ok {
			if t.Recursive {
				bad("call of the recursive translated function %s", name)
			}
			a := f.args(x, pre)
			if x.Ellipsis.IsValid() {
				bad("spread call of a translated function")
			}
			sig := fo.Type().(*types.Signature)
			if sig.Recv() != nil {
				sel := x.Fun.(*ast.SelectorExpr)
				rv := f.expr(sel.X, pre)
				if strings.HasPrefix(f.leanType(f.info.TypeOf(sel.X)), "(Option ") {
					d := f.tmp()
					*pre = append(*pre, "let "+d+" ← Go.deref "+rv) // a method call through a nil pointer panics
					rv = d
				}
				a = append([]string{rv}, a...)
			}
			if sig.Variadic() {
				n := sig.Params().Len() - 1
				a = append(a[:n:n], "["+strings.Join(a[n:], ", ")+"]")
			}
			tmp := f.tmp()
			rt := f.resultType(sig, t)
			pref := t.ExtraArgs
			if sig.Recv() != nil {
				pref = nil // the receiver stands for what the method's extra parameters abstract
			}
			*pre = append(*pre, "let "+tmp+" : "+rt+" ← "+leanName(t)+" "+strings.Join(append(append([]string{}, pref...), a...), " "))
			return tmp
		}
	}
	bad("call %s (%s) at %s", f.text(x), name, f.fset.Position(x.Pos()))
	return ""
}

// sprintf: a format that is a constant and uses no verb but %s becomes the concatenation of its pieces and arguments
func (f *fn) sprintf(args []ast.Expr, pre *[]string) string {
	tv, ok := f.info.Types[args[0]]
	if !ok || tv.Value == nil {
		bad("format %s is not a constant", f.text(args[0]))
	}
	format := constant.StringVal(tv.Value)
	pieces := strings.Split(format, "%s")
	if strings.Contains(strings.Join(pieces, ""), "%") || len(pieces) != len(args) {
		bad("format %q: only %%s verbs, one per argument", format)
	}
	var parts []string
	for i, piece := range pieces {
		if piece != "" {
			parts = append(parts, strLit(piece))
		}
		if i+1 < len(args) {
			if lt := f.leanType(f.info.TypeOf(args[i+1])); lt != "Str" {
				bad("%%s argument of type %s", lt)
			}
			parts = append(parts, f.expr(args[i+1], pre))
		}
	}
	if len(parts) == 0 {
		return "([] : Str)"
	}
	return "(" + strings.Join(parts, " ++ ") + ")"
}

func leanName(t *target) string {
	if t.Lean != "" {
		return t.Lean
	}
	return strings.ReplaceAll(t.Func, ".", "_")
}

func (f *fn) resultType(sig *types.Signature, t *target) string {
	r := sig.Results()
	save := f.t
	f.t = *t
	defer func() { f.t = save }()
	if t.ErrorResult {
		if r.Len() != 2 {
			bad("error_result needs (T, error)")
		}
		return "(Option " + f.leanType(r.At(0).Type()) + ")"
	}
	switch r.Len() {
	case 0:
		return "Unit"
	case 1:
		return f.leanType(r.At(0).Type())
	}
	var parts []string
	for i := 0; i < r.Len(); i++ {
		parts = append(parts, f.leanType(r.At(i).Type()))
	}
	return "(" + strings.Join(parts, " × ") + ")"
}

// ---------------------------------------------------------------- statements

type konts struct {
	fall string              // what falling off the end of the block does
	cont string              // `continue`
	brk  string              // `break`
	ret  func(string) string // `return v`
}

func ind(lines []string, n int) []string {
	p := strings.Repeat(" ", n)
	out := make([]string, len(lines))
	for i, l := range lines {
		out[i] = p + l
	}
	return out
}

// transfers: does control always leave the block through return / continue / break?
func transfers(s ast.Stmt) bool {
	switch x := s.(type) {
	case *ast.ReturnStmt:
		return true
	case *ast.BranchStmt:
		return x.Tok == token.CONTINUE || x.Tok == token.BREAK
	case *ast.BlockStmt:
		return len(x.List) > 0 && transfers(x.List[len(x.List)-1])
	case *ast.IfStmt:
		return x.Else != nil && transfers(x.Body) && transfers(x.Else)
	}
	return false
}

// mayTransfer: does the statement contain a return, or a continue / break that belongs to an enclosing loop?
func mayTransfer(s ast.Node) bool {
	found := false
	var walk func(n ast.Node, inLoop bool)
	walk = func(n ast.Node, inLoop bool) {
		ast.Inspect(n, func(m ast.Node) bool {
			if found || m == nil {
				return false
			}
			switch y := m.(type) {
			case *ast.ReturnStmt:
				found = true
			case *ast.BranchStmt:
				if !inLoop {
					found = true
				}
			case *ast.ForStmt:
				if m != n {
					walk(y.Body, true)
					return false
				}
			case *ast.RangeStmt:
				if m != n {
					walk(y.Body, true)
					return false
				}
			case *ast.FuncLit:
				return false
			}
			return true
		})
	}
	walk(s, false)
	return found
}

func hasReturn(s ast.Node) bool {
	found := false
	ast.Inspect(s, func(m ast.Node) bool {
		if _, ok := m.(*ast.ReturnStmt); ok {
			found = true
		}
		if _, ok := m.(*ast.FuncLit); ok {
			return false
		}
		return !found
	})
	return found
}

// rootVar: the variable a left-hand side (x, x[i], x[i][j]) or a builder method call (x.WriteRune) assigns to
func (f *fn) rootVar(e ast.Expr) *types.Var {
	for {
		switch x := e.(type) {
		case *ast.Ident:
			if x.Name == "_" {
				return nil
			}
			obj := f.info.Uses[x]
			if obj == nil {
				obj = f.info.Defs[x]
			}
			v, _ := obj.(*types.Var)
			return v
		case *ast.IndexExpr:
			e = x.X
		case *ast.ParenExpr:
			e = x.X
		case *ast.SelectorExpr:
			if _, _, ok := f.structOf(f.info.TypeOf(x.X)); !ok {
				return nil
			}
			e = x.X
		default:
			return nil
		}
	}
}

var builderWrites = map[string]bool{"WriteRune": true, "WriteString": true, "WriteByte": true, "Write": true}

// assigned: variables declared outside n (before `outer`) that n assigns, in order of declaration
func (f *fn) assigned(outer token.Pos, nodes ...ast.Node) []*types.Var {
	seen := map[*types.Var]bool{}
	var out []*types.Var
	add := func(v *types.Var) {
		if v != nil && !seen[v] && v.Pos() < outer {
			seen[v] = true
			out = append(out, v)
		}
	}
	for _, n := range nodes {
		if n == nil {
			continue
		}
		ast.Inspect(n, func(m ast.Node) bool {
			switch y := m.(type) {
			case *ast.AssignStmt:
				for _, l := range y.Lhs {
					add(f.rootVar(l))
				}
			case *ast.IncDecStmt:
				add(f.rootVar(y.X))
			case *ast.CallExpr:
				if id, ok := y.Fun.(*ast.Ident); ok && f.yield != nil && f.info.Uses[id] == f.yield {
					add(f.outVar)
				}
				if sel, ok := y.Fun.(*ast.SelectorExpr); ok && builderWrites[sel.Sel.Name] && isBuilder(f.info.TypeOf(sel.X)) {
					add(f.rootVar(sel.X))
				}
				switch n, _ := f.callee(y); n {
				case "fmt.Fprintf", "sort.Strings", "slices.Reverse":
					add(f.rootVar(y.Args[0]))
				case "sort.Sort":
					if conv, ok := y.Args[0].(*ast.CallExpr); ok && len(conv.Args) == 1 {
						add(f.rootVar(conv.Args[0]))
					}
				}
			case *ast.FuncLit:
				return false
			}
			if call, ok := m.(*ast.CallExpr); ok {
				if id, ok := call.Fun.(*ast.Ident); ok {
					if v, ok := f.info.Uses[id].(*types.Var); ok {
						if cl := f.closures[v]; cl != nil {
							for _, sv := range cl.state {
								add(sv)
							}
						}
					}
				}
			}
			return true
		})
	}
	sort.Slice(out, func(i, j int) bool { return out[i].Pos() < out[j].Pos() })
	return out
}

// freeVars: local variables and parameters declared before `outer` that n mentions, in order of declaration
func (f *fn) freeVars(outer token.Pos, n ast.Node) []*types.Var {
	seen := map[*types.Var]bool{}
	var out []*types.Var
	ast.Inspect(n, func(m ast.Node) bool {
		if id, ok := m.(*ast.Ident); ok {
			if v, ok := f.info.Uses[id].(*types.Var); ok && !v.IsField() && v.Pkg() != nil && v.Parent() != v.Pkg().Scope() && v.Pos() < outer && !seen[v] {
				if f.dropped(v) || v == f.yield {
					return true
				}
				if cl := f.closures[v]; cl != nil {
					// calling a closure needs what it captures
					for _, cv := range append(append([]*types.Var{}, cl.ro...), cl.state...) {
						if !seen[cv] && cv.Pos() < outer {
							seen[cv] = true
							out = append(out, cv)
						}
					}
					return true
				}
				seen[v] = true
				out = append(out, v)
			}
		}
		return true
	})
	sort.Slice(out, func(i, j int) bool { return out[i].Pos() < out[j].Pos() })
	return out
}

func (f *fn) dropped(v *types.Var) bool {
	for _, d := range f.t.DropParams {
		if v.Name() == d {
			return true
		}
	}
	if f.decl.Recv != nil && len(f.decl.Recv.List[0].Names) == 1 && f.info.Defs[f.decl.Recv.List[0].Names[0]] == v {
		if _, _, ok := f.structOf(v.Type()); ok {
			return false // a receiver of a translated struct type is an ordinary parameter
		}
		return true
	}
	return false
}

func (f *fn) tuple(vs []*types.Var) string {
	if len(vs) == 0 {
		return "()"
	}
	var ns []string
	for _, v := range vs {
		ns = append(ns, f.nameOf(v))
	}
	if len(ns) == 1 {
		return ns[0]
	}
	return "(" + strings.Join(ns, ", ") + ")"
}

func (f *fn) tupleType(vs []*types.Var) string {
	if len(vs) == 0 {
		return "Unit"
	}
	var ts []string
	for _, v := range vs {
		ts = append(ts, f.leanType(v.Type()))
	}
	if len(ts) == 1 {
		return ts[0]
	}
	return "(" + strings.Join(ts, " × ") + ")"
}

func (f *fn) bindTuple(vs []*types.Var, rhs string) string {
	if len(vs) == 0 {
		return "let _ ← " + rhs
	}
	return "let " + f.tuple(vs) + " ← " + rhs
}

// assign compiles `lhs = rhs` for one left-hand side
func (f *fn) assign(lhs ast.Expr, rhs string, out *[]string) {
	switch l := lhs.(type) {
	case *ast.Ident:
		if l.Name == "_" {
			return
		}
		obj := f.info.Defs[l]
		if obj == nil {
			obj = f.info.Uses[l]
		}
		v := obj.(*types.Var)
		*out = append(*out, "let "+f.nameOf(v)+" : "+f.leanType(v.Type())+" := "+rhs)
	case *ast.IndexExpr:
		xt := f.info.TypeOf(l.X)
		if _, ok := xt.Underlying().(*types.Map); ok {
			m := f.expr(l.X, out)
			k := f.expr(l.Index, out)
			f.assign(l.X, "Go.mapSet "+m+" "+k+" "+rhs, out)
			return
		}
		if _, ok := xt.Underlying().(*types.Slice); ok {
			a := f.expr(l.X, out)
			i := f.expr(l.Index, out)
			t := f.tmp()
			*out = append(*out, "let "+t+" : "+f.leanType(xt)+" ← Go.setIdx "+a+" "+i+" "+rhs)
			f.assign(l.X, t, out)
			return
		}
		bad("assignment to %s", f.text(lhs))
	case *ast.SelectorExpr:
		if sc, _, ok := f.structOf(f.info.TypeOf(l.X)); ok {
			x := f.expr(l.X, out)
			f.assign(l.X, f.fieldSet(sc, x, l.Sel.Name, rhs), out)
			return
		}
		bad("assignment to %s", f.text(lhs))
	default:
		bad("assignment to %s", f.text(lhs))
	}
}

func elseList(s ast.Stmt) []ast.Stmt {
	switch x := s.(type) {
	case nil:
		return nil
	case *ast.BlockStmt:
		return x.List
	default:
		return []ast.Stmt{x}
	}
}

func (f *fn) stmts(list []ast.Stmt, k konts) []string {
	var out []string
	for i, s := range list {
		rest := list[i+1:]
		switch x := s.(type) {
		case *ast.EmptyStmt:
		case *ast.BlockStmt:
			return append(out, f.stmts(append(append([]ast.Stmt{}, x.List...), rest...), k)...)
		case *ast.DeclStmt:
			gd := x.Decl.(*ast.GenDecl)
			if gd.Tok != token.VAR {
				bad("declaration %s", f.text(x))
			}
			for _, sp := range gd.Specs {
				vs := sp.(*ast.ValueSpec)
				for j, id := range vs.Names {
					v := f.info.Defs[id].(*types.Var)
					rhs := f.zero(v.Type())
					if len(vs.Values) > 0 {
						rhs = f.expr(vs.Values[j], &out)
					}
					out = append(out, "let "+f.nameOf(v)+" : "+f.leanType(v.Type())+" := "+rhs)
				}
			}
		case *ast.AssignStmt:
			if lit, ok := f.closureDef(x); ok {
				out = append(out, lit...) // (nothing: the closure becomes an auxiliary definition)
				break
			}
			if lines, ok := f.errPropagation(x, rest, k, &out); ok {
				return append(out, lines...)
			}
			switch {
			case x.Tok == token.ADD_ASSIGN || x.Tok == token.SUB_ASSIGN:
				op := " + "
				if x.Tok == token.SUB_ASSIGN {
					op = " - "
				}
				if f.leanType(f.info.TypeOf(x.Lhs[0])) == "Str" {
					op = " ++ "
				}
				cur := f.expr(x.Lhs[0], &out)
				f.assign(x.Lhs[0], "("+cur+op+f.expr(x.Rhs[0], &out)+")", &out)
			case x.Tok != token.ASSIGN && x.Tok != token.DEFINE:
				bad("assignment operator %s", x.Tok)
			case len(x.Lhs) == len(x.Rhs):
				var rs []string
				for _, r := range x.Rhs {
					rs = append(rs, f.expr(r, &out))
				}
				if len(rs) > 1 { // parallel assignment: right-hand sides first
					for j := range rs {
						t := f.tmp()
						out = append(out, "let "+t+" := "+rs[j])
						rs[j] = t
					}
				}
				for j, l := range x.Lhs {
					f.assign(l, rs[j], &out)
				}
			case len(x.Rhs) == 1:
				if ix, ok := x.Rhs[0].(*ast.IndexExpr); ok && len(x.Lhs) == 2 {
					if u, ok := f.info.TypeOf(ix.X).Underlying().(*types.Map); ok { // v, ok := m[k]
						m, key := f.expr(ix.X, &out), f.expr(ix.Index, &out)
						f.assign(x.Lhs[0], "(Go.mapGet "+m+" "+key+" "+f.zero(u.Elem())+")", &out)
						f.assign(x.Lhs[1], "(Go.mapHas "+m+" "+key+")", &out)
						break
					}
				}
				call, ok := x.Rhs[0].(*ast.CallExpr)
				if !ok {
					bad("multi-value assignment from %s", f.text(x.Rhs[0]))
				}
				allBlank := true
				for _, l := range x.Lhs {
					if id, ok := l.(*ast.Ident); !ok || id.Name != "_" {
						allBlank = false
					}
				}
				if allBlank && f.writeCall(call, &out) {
					break
				}
				t := f.expr(call, &out)
				for j, l := range x.Lhs {
					proj := t
					for n := 0; n < j; n++ {
						proj += ".2"
					}
					if j < len(x.Lhs)-1 {
						proj += ".1"
					}
					f.assign(l, proj, &out)
				}
			default:
				bad("assignment %s", f.text(x))
			}
		case *ast.IncDecStmt:
			op := " + "
			if x.Tok == token.DEC {
				op = " - "
			}
			f.assign(x.X, "("+f.expr(x.X, &out)+op+"(1 : Int))", &out)
		case *ast.ExprStmt:
			call, ok := x.X.(*ast.CallExpr)
			if !ok {
				bad("expression statement %s", f.text(x))
			}
			if f.writeCall(call, &out) {
				break
			}
			if sel, ok := call.Fun.(*ast.SelectorExpr); ok && builderWrites[sel.Sel.Name] && isBuilder(f.info.TypeOf(sel.X)) {
				b := f.expr(sel.X, &out)
				a := f.expr(call.Args[0], &out)
				rhs := "(" + b + " ++ " + a + ")"
				if sel.Sel.Name == "WriteRune" || sel.Sel.Name == "WriteByte" {
					rhs = "(" + b + " ++ [" + a + "])"
				}
				f.assign(sel.X, rhs, &out)
				break
			}
			bad("call statement %s", f.text(x))
		case *ast.ReturnStmt:
			return append(out, f.ret(x, k, &out)...)
		case *ast.BranchStmt:
			if x.Label != nil {
				bad("labelled %s", x.Tok)
			}
			switch x.Tok {
			case token.CONTINUE:
				if k.cont == "" {
					bad("continue outside a loop")
				}
				return append(out, k.cont)
			case token.BREAK:
				if k.brk == "" {
					bad("break outside a loop")
				}
				return append(out, k.brk)
			}
			bad("branch %s", x.Tok)
		case *ast.SwitchStmt:
			return append(out, f.stmts(append([]ast.Stmt{f.switchToIf(x)}, rest...), k)...)
		case *ast.IfStmt:
			if lines, ok := f.closureBoolCheck(x, rest, k, &out); ok {
				return append(out, lines...)
			}
			if lines, ok := f.closureCallCheck(x, rest, k, &out); ok {
				return append(out, lines...)
			}
			if frag, ok := f.yieldStmt(x, &out); ok {
				n := f.nameOf(f.outVar)
				out = append(out, "let "+n+" : (List Str) := ("+n+" ++ ["+frag+"])")
				break
			}
			var cond string
			if pi := f.parseIntTest(x, &out); pi != "" {
				cond = pi
			} else {
				if x.Init != nil {
					out = append(out, f.stmts1(x.Init)...)
				}
				cond = f.expr(x.Cond, &out)
			}
			els := elseList(x.Else)
			thenT := transfers(x.Body)
			elseT := x.Else != nil && transfers(x.Else)
			switch {
			case !mayTransfer(x.Body) && (x.Else == nil || !mayTransfer(x.Else)):
				var nodes []ast.Node
				nodes = append(nodes, x.Body)
				if x.Else != nil {
					nodes = append(nodes, x.Else)
				}
				vs := f.assigned(x.Pos(), nodes...)
				kk := konts{fall: "pure " + f.tuple(vs)}
				thenL := f.stmts(x.Body.List, kk)
				elseL := f.stmts(els, kk)
				pureArms := true
				for _, l := range append(append([]string{}, thenL...), elseL...) {
					if strings.Contains(l, "←") {
						pureArms = false
					}
				}
				if pureArms && len(vs) > 0 {
					// no effect in either arm: an ordinary conditional expression
					thenL[len(thenL)-1] = strings.TrimPrefix(thenL[len(thenL)-1], "pure ")
					elseL[len(elseL)-1] = strings.TrimPrefix(elseL[len(elseL)-1], "pure ")
					out = append(out, "let "+f.tuple(vs)+" : "+f.tupleType(vs)+" :=")
					out = append(out, "  if "+cond+" then")
					out = append(out, ind(thenL, 4)...)
					out = append(out, "  else")
					out = append(out, ind(elseL, 4)...)
					break
				}
				out = append(out, strings.TrimRight(f.bindTuple(vs, ""), " "))
				out = append(out, "  if "+cond+" then do")
				out = append(out, ind(thenL, 4)...)
				out = append(out, "  else do")
				out = append(out, ind(elseL, 4)...)
			case thenT:
				out = append(out, "if "+cond+" then do")
				out = append(out, ind(f.stmts(x.Body.List, k), 2)...)
				out = append(out, "else do")
				out = append(out, ind(f.stmts(append(append([]ast.Stmt{}, els...), rest...), k), 2)...)
				return out
			case elseT:
				out = append(out, "if "+cond+" then do")
				out = append(out, ind(f.stmts(append(append([]ast.Stmt{}, x.Body.List...), rest...), k), 2)...)
				out = append(out, "else do")
				out = append(out, ind(f.stmts(els, k), 2)...)
				return out
			default:
				out = append(out, "if "+cond+" then do")
				out = append(out, ind(f.stmts(append(append([]ast.Stmt{}, x.Body.List...), rest...), k), 2)...)
				out = append(out, "else do")
				out = append(out, ind(f.stmts(append(append([]ast.Stmt{}, els...), rest...), k), 2)...)
				return out
			}
		case *ast.RangeStmt:
			lines, terminal := f.rangeLoop(x, rest, k)
			out = append(out, lines...)
			if terminal {
				return out
			}
		case *ast.ForStmt:
			lines, terminal := f.forLoop(x, rest, k)
			out = append(out, lines...)
			if terminal {
				return out
			}
		default:
			bad("statement %s (%T) at %s", f.text(s), s, f.fset.Position(s.Pos()))
		}
	}
	return append(out, k.fall)
}

func isNilIdent(e ast.Expr) bool {
	id, ok := e.(*ast.Ident)
	return ok && id.Name == "nil"
}

// errCheck: is `s` the statement `if <errVar> != nil { return … }` ?
func (f *fn) errCheck(s ast.Stmt, errVar types.Object) (*ast.IfStmt, bool) {
	x, ok := s.(*ast.IfStmt)
	if !ok || x.Init != nil || x.Else != nil || len(x.Body.List) != 1 {
		return nil, false
	}
	if _, ok := x.Body.List[0].(*ast.ReturnStmt); !ok {
		return nil, false
	}
	cmp, ok := x.Cond.(*ast.BinaryExpr)
	if !ok || cmp.Op != token.NEQ || !isNilIdent(cmp.Y) {
		return nil, false
	}
	id, ok := cmp.X.(*ast.Ident)
	if !ok || f.info.Uses[id] != errVar {
		return nil, false
	}
	return x, true
}

// errPropagation: `v, err := g(…)` (g translated with error_result, or the function itself) directly followed by
// `if err != nil { return … }` — a match on the Option the call yields
func (f *fn) errPropagation(x *ast.AssignStmt, rest []ast.Stmt, k konts, out *[]string) ([]string, bool) {
	if len(x.Lhs) != 2 || len(x.Rhs) != 1 || len(rest) == 0 || (x.Tok != token.DEFINE && x.Tok != token.ASSIGN) {
		return nil, false
	}
	call, ok := x.Rhs[0].(*ast.CallExpr)
	if !ok {
		return nil, false
	}
	name, fo := f.callee(call)
	isSelf := fo != nil && f.t.Recursive && fo == f.info.Defs[f.decl.Name]
	_, isAbstract := f.t.Abstract[f.text(call)] // an effect of the outside world (reading a file): a parameter of type Option
	if t, ok := f.all[name]; !isAbstract && !(isSelf && f.t.ErrorResult) && !(ok && t.ErrorResult) {
		return nil, false
	}
	errId, ok := x.Lhs[1].(*ast.Ident)
	if !ok {
		return nil, false
	}
	errObj := f.info.Defs[errId]
	if errObj == nil {
		errObj = f.info.Uses[errId]
	}
	chk, ok := f.errCheck(rest[0], errObj)
	if !ok {
		return nil, false
	}
	tmp := f.expr(call, out)
	pat := "_"
	if id, ok := x.Lhs[0].(*ast.Ident); ok && id.Name != "_" {
		obj := f.info.Defs[id]
		if obj == nil {
			obj = f.info.Uses[id]
		}
		pat = f.nameOf(obj)
	}
	lines := []string{"match " + tmp + " with", "| none => do"}
	lines = append(lines, ind(f.stmts(chk.Body.List, k), 4)...)
	lines = append(lines, "| some "+pat+" => do")
	lines = append(lines, ind(f.stmts(rest[1:], k), 4)...)
	return lines, true
}

// closureDef: `name := func(params) error { … }` becomes an auxiliary definition
func (f *fn) closureDef(x *ast.AssignStmt) ([]string, bool) {
	if x.Tok != token.DEFINE || len(x.Lhs) != 1 || len(x.Rhs) != 1 {
		return nil, false
	}
	lit, ok := x.Rhs[0].(*ast.FuncLit)
	if !ok {
		return nil, false
	}
	v := f.info.Defs[x.Lhs[0].(*ast.Ident)].(*types.Var)
	sig := v.Type().(*types.Signature)
	if sig.Results().Len() != 1 || (sig.Results().At(0).Type().String() != "error" && sig.Results().At(0).Type().String() != "bool") {
		bad("closure %s: only closures returning an error or a bool are translated", v.Name())
	}
	cl := &closure{name: f.leanFn + "." + v.Name(), lit: lit, isBool: sig.Results().At(0).Type().String() == "bool"}
	for i := 0; i < sig.Params().Len(); i++ {
		cl.params = append(cl.params, sig.Params().At(i))
	}
	cl.state = f.assigned(lit.Pos(), lit.Body)
	isState := map[*types.Var]bool{}
	for _, sv := range cl.state {
		isState[sv] = true
	}
	for _, fv := range f.freeVars(lit.Pos(), lit.Body) {
		if !isState[fv] {
			cl.ro = append(cl.ro, fv)
		}
	}
	if f.closures == nil {
		f.closures = map[*types.Var]*closure{}
	}
	f.closures[v] = cl
	var binders []string
	binders = append(binders, f.t.ExtraParams...)
	if f.t.Recursive {
		binders = append(binders, "(self__ : "+f.selfType()+")")
	}
	for _, b := range append(append(append([]*types.Var{}, cl.ro...), cl.state...), cl.params...) {
		binders = append(binders, f.binder(b))
	}
	saveAux, saveCl := f.inAux, f.curClosure
	f.inAux, f.curClosure = true, cl
	kk := konts{fall: "pure (some " + f.tuple(cl.state) + ")", ret: func(v string) string { return "pure " + v }}
	resTy := "(Option " + f.tupleType(cl.state) + ")"
	if cl.isBool {
		// the answer and the captured variables as they are at the return
		kk = konts{fall: "throw .panic", ret: func(v string) string { return "pure (" + v + ", " + f.tuple(cl.state) + ")" }}
		resTy = "(Bool × " + f.tupleType(cl.state) + ")"
	}
	saveRes := f.resTy
	if cl.isBool {
		f.resTy = "Bool"
	}
	body := f.stmts(lit.Body.List, kk)
	f.resTy = saveRes
	f.inAux, f.curClosure = saveAux, saveCl
	def := []string{"def " + cl.name + " " + strings.Join(binders, " ") + " : M " + resTy + " := do"}
	def = append(def, ind(body, 2)...)
	f.aux = append(f.aux, strings.Join(def, "\n"))
	return nil, true
}

// closureCallCheck: `if err := name(args); err != nil { return … }` for a closure `name`
func (f *fn) closureCallCheck(x *ast.IfStmt, rest []ast.Stmt, k konts, out *[]string) ([]string, bool) {
	as, ok := x.Init.(*ast.AssignStmt)
	if !ok || as.Tok != token.DEFINE || len(as.Lhs) != 1 || len(as.Rhs) != 1 || x.Else != nil {
		return nil, false
	}
	call, ok := as.Rhs[0].(*ast.CallExpr)
	if !ok {
		return nil, false
	}
	id, ok := call.Fun.(*ast.Ident)
	if !ok {
		return nil, false
	}
	cv, _ := f.info.Uses[id].(*types.Var)
	cl := f.closures[cv]
	if cl == nil {
		return nil, false
	}
	errObj := f.info.Defs[as.Lhs[0].(*ast.Ident)]
	inner := &ast.IfStmt{If: x.If, Cond: x.Cond, Body: x.Body}
	chk, ok := f.errCheck(inner, errObj)
	if !ok {
		return nil, false
	}
	var args []string
	args = append(args, f.t.ExtraArgs...)
	if f.t.Recursive {
		args = append(args, f.selfRef())
	}
	for _, v := range append(append([]*types.Var{}, cl.ro...), cl.state...) {
		args = append(args, f.nameOf(v))
	}
	args = append(args, f.args(call, out)...)
	lines := []string{"match ← " + cl.name + " " + strings.Join(args, " ") + " with", "| none => do"}
	lines = append(lines, ind(f.stmts(chk.Body.List, k), 4)...)
	lines = append(lines, "| some "+f.tuple(cl.state)+" => do")
	lines = append(lines, ind(f.stmts(rest, k), 4)...)
	return lines, true
}

// closureBoolCheck: `if name(args) { … }` for a closure `name` that returns bool
func (f *fn) closureBoolCheck(x *ast.IfStmt, rest []ast.Stmt, k konts, out *[]string) ([]string, bool) {
	if x.Init != nil || x.Else != nil {
		return nil, false
	}
	call, ok := x.Cond.(*ast.CallExpr)
	if !ok {
		return nil, false
	}
	id, ok := call.Fun.(*ast.Ident)
	if !ok {
		return nil, false
	}
	cv, _ := f.info.Uses[id].(*types.Var)
	cl := f.closures[cv]
	if cl == nil || !cl.isBool {
		return nil, false
	}
	var args []string
	args = append(args, f.t.ExtraArgs...)
	if f.t.Recursive {
		args = append(args, f.selfRef())
	}
	for _, v := range append(append([]*types.Var{}, cl.ro...), cl.state...) {
		args = append(args, f.nameOf(v))
	}
	args = append(args, f.args(call, out)...)
	b := f.tmp()
	lines := []string{"let (" + b + ", " + f.tuple(cl.state) + ") ← " + cl.name + " " + strings.Join(args, " "), "if " + b + " then do"}
	lines = append(lines, ind(f.stmts(append(append([]ast.Stmt{}, x.Body.List...), rest...), k), 2)...)
	lines = append(lines, "else do")
	lines = append(lines, ind(f.stmts(rest, k), 2)...)
	return lines, true
}

// yieldStmt: `if !yield(x) { return }` — hand the consumer one fragment, stop if it has had enough
func (f *fn) yieldStmt(x *ast.IfStmt, out *[]string) (string, bool) {
	if f.yield == nil || x.Init != nil || x.Else != nil || len(x.Body.List) != 1 {
		return "", false
	}
	if r, ok := x.Body.List[0].(*ast.ReturnStmt); !ok || len(r.Results) != 0 {
		return "", false
	}
	not, ok := x.Cond.(*ast.UnaryExpr)
	if !ok || not.Op != token.NOT {
		return "", false
	}
	call, ok := not.X.(*ast.CallExpr)
	if !ok || len(call.Args) != 1 {
		return "", false
	}
	if id, ok := call.Fun.(*ast.Ident); !ok || f.info.Uses[id] != f.yield {
		return "", false
	}
	return f.expr(call.Args[0], out), true
}

// parseIntTest: `if _, err := strconv.ParseInt(X, 10, 64); err == nil` asks whether X is a decimal 64-bit integer
func (f *fn) parseIntTest(x *ast.IfStmt, out *[]string) string {
	as, ok := x.Init.(*ast.AssignStmt)
	if !ok || as.Tok != token.DEFINE || len(as.Lhs) != 2 || len(as.Rhs) != 1 {
		return ""
	}
	call, ok := as.Rhs[0].(*ast.CallExpr)
	if !ok {
		return ""
	}
	if n, _ := f.callee(call); n != "strconv.ParseInt" || len(call.Args) != 3 {
		return ""
	}
	for i, want := range []int64{10, 64} {
		tv := f.info.Types[call.Args[i+1]]
		if v, ok := constant.Int64Val(constant.ToInt(tv.Value)); tv.Value == nil || !ok || v != want {
			return ""
		}
	}
	first, _ := as.Lhs[0].(*ast.Ident)
	errId, _ := as.Lhs[1].(*ast.Ident)
	cmp, _ := x.Cond.(*ast.BinaryExpr)
	if first == nil || first.Name != "_" || errId == nil || cmp == nil || (cmp.Op != token.EQL && cmp.Op != token.NEQ) {
		return ""
	}
	l, _ := cmp.X.(*ast.Ident)
	r, _ := cmp.Y.(*ast.Ident)
	if l == nil || r == nil || l.Name != errId.Name || r.Name != "nil" {
		return ""
	}
	t := "(Go.parsesInt " + f.expr(call.Args[0], out) + ")"
	if cmp.Op == token.NEQ {
		t = "(!" + t + ")"
	}
	return t
}

// writeCall: calls that are statements because of what they do to an argument — fmt.Fprintf(w, …) appends to the
// writer, sort.Sort(sort.StringSlice(x)) / sort.Strings(x) sort the slice
func (f *fn) writeCall(call *ast.CallExpr, out *[]string) bool {
	name, _ := f.callee(call)
	switch name {
	case "fmt.Fprintf":
		if f.leanType(f.info.TypeOf(call.Args[0])) != "Str" {
			return false
		}
		w := f.expr(call.Args[0], out)
		f.assign(call.Args[0], "("+w+" ++ "+f.sprintf(call.Args[1:], out)+")", out)
		return true
	case "sort.Strings":
		f.assign(call.Args[0], "(Go.sortStrs "+f.expr(call.Args[0], out)+")", out)
		return true
	case "slices.Reverse":
		f.assign(call.Args[0], "("+f.expr(call.Args[0], out)+").reverse", out)
		return true
	case "sort.Sort":
		if conv, ok := call.Args[0].(*ast.CallExpr); ok {
			if tv, ok := f.info.Types[conv.Fun]; ok && tv.IsType() && tv.Type.String() == "sort.StringSlice" {
				f.assign(conv.Args[0], "(Go.sortStrs "+f.expr(conv.Args[0], out)+")", out)
				return true
			}
		}
	}
	return false
}

// stmts1 compiles one simple statement without a terminal (an `if` / `for` init)
func (f *fn) stmts1(s ast.Stmt) []string {
	l := f.stmts([]ast.Stmt{s}, konts{fall: "\x00"})
	if len(l) == 0 || l[len(l)-1] != "\x00" {
		bad("init statement %s", f.text(s))
	}
	return l[:len(l)-1]
}

func (f *fn) ret(x *ast.ReturnStmt, k konts, out *[]string) []string {
	var pre []string
	var v string
	if f.curClosure != nil {
		// a closure returning an error: nil hands back the captured variables it assigned, anything else is the failure
		if len(x.Results) != 1 {
			bad("closure return %s", f.text(x))
		}
		if f.curClosure.isBool {
			b := f.expr(x.Results[0], &pre)
			return append(pre, "pure ("+b+", "+f.tuple(f.curClosure.state)+")")
		}
		if id, ok := x.Results[0].(*ast.Ident); ok && id.Name == "nil" {
			return []string{"pure (some " + f.tuple(f.curClosure.state) + ")"}
		}
		return []string{"pure none"}
	}
	switch {
	case len(x.Results) == 0:
		v = f.namedTuple()
	case f.t.ErrorResult:
		if id, ok := x.Results[1].(*ast.Ident); ok && id.Name == "nil" {
			v = "(some " + f.expr(x.Results[0], &pre) + ")"
		} else if id, ok := x.Results[0].(*ast.Ident); ok && id.Name == "nil" {
			v = "none"
		} else {
			bad("return %s with error_result", f.text(x))
		}
	default:
		var rs []string
		for _, r := range x.Results {
			rs = append(rs, f.expr(r, &pre))
		}
		v = strings.Join(rs, ", ")
		if len(rs) > 1 {
			v = "(" + v + ")"
		}
	}
	return append(pre, k.ret(v))
}

func (f *fn) namedTuple() string {
	if len(f.named) == 0 {
		return "()"
	}
	if len(f.named) == 1 {
		return f.named[0]
	}
	return "(" + strings.Join(f.named, ", ") + ")"
}

func (f *fn) switchToIf(x *ast.SwitchStmt) ast.Stmt {
	if x.Init != nil {
		bad("switch with init")
	}
	var tagIsTrue bool
	if x.Tag != nil {
		if id, ok := x.Tag.(*ast.Ident); ok && id.Name == "true" {
			tagIsTrue = true
		}
	} else {
		tagIsTrue = true
	}
	var head, cur *ast.IfStmt
	var deflt *ast.BlockStmt
	for _, c := range x.Body.List {
		cc := c.(*ast.CaseClause)
		for _, s := range cc.Body {
			if b, ok := s.(*ast.BranchStmt); ok && (b.Tok == token.FALLTHROUGH || b.Tok == token.BREAK) {
				bad("%s in switch", b.Tok)
			}
		}
		body := &ast.BlockStmt{Lbrace: cc.Pos(), List: cc.Body, Rbrace: cc.End()}
		if cc.List == nil {
			deflt = body
			continue
		}
		var cond ast.Expr
		for _, e := range cc.List {
			var c1 ast.Expr = e
			if !tagIsTrue {
				be := &ast.BinaryExpr{X: x.Tag, Op: token.EQL, Y: e, OpPos: e.Pos()}
				f.info.Types[be] = types.TypeAndValue{Type: types.Typ[types.Bool]}
				c1 = be
			}
			if cond == nil {
				cond = c1
			} else {
				be := &ast.BinaryExpr{X: cond, Op: token.LOR, Y: c1, OpPos: e.Pos()}
				f.info.Types[be] = types.TypeAndValue{Type: types.Typ[types.Bool]}
				cond = be
			}
		}
		n := &ast.IfStmt{If: cc.Pos(), Cond: cond, Body: body}
		if head == nil {
			head = n
		} else {
			cur.Else = n
		}
		cur = n
	}
	if head == nil {
		if deflt != nil {
			return deflt
		}
		return &ast.EmptyStmt{}
	}
	if deflt != nil {
		cur.Else = deflt
	}
	return head
}

// ---------------------------------------------------------------- loops

func (f *fn) binder(v *types.Var) string {
	return "(" + f.nameOf(v) + " : " + f.leanType(v.Type()) + ")"
}

// loopShell emits the auxiliary definition and returns the lines that call it
func (f *fn) finishLoop(name string, hasRet bool, state []*types.Var, callArgs string, rest []ast.Stmt, k konts) ([]string, bool) {
	if !hasRet {
		return []string{f.bindTuple(state, name+" "+callArgs)}, false
	}
	lines := []string{"match ← " + name + " " + callArgs + " with"}
	lines = append(lines, "| .ret r__ => "+k.ret("r__"))
	lines = append(lines, "| .next "+f.tuple(state)+" => do")
	lines = append(lines, ind(f.stmts(rest, k), 4)...)
	return lines, true
}

func (f *fn) rangeLoop(x *ast.RangeStmt, rest []ast.Stmt, k konts) ([]string, bool) {
	f.loopN++
	name := f.leanFn + ".loop" + fmt.Sprint(f.loopN)
	var pre []string
	xt := f.info.TypeOf(x.X)
	var elemTy, list string
	isMap := false
	if call, ok := x.X.(*ast.CallExpr); ok {
		if n, _ := f.callee(call); n == "bytes.Lines" {
			// the lines of the data, each with its terminator
			if x.Value != nil {
				bad("two variables ranging over bytes.Lines")
			}
			elemTy, list = "Str", "(Go.bytesLines "+f.expr(call.Args[0], &pre)+")"
			xt = types.NewSlice(types.NewSlice(types.Typ[types.Uint8]))
			x = &ast.RangeStmt{For: x.For, Key: nil, Value: x.Key, Tok: x.Tok, X: x.X, Body: x.Body}
		}
	}
	if sig, ok := xt.Underlying().(*types.Signature); ok && sig.Params().Len() == 1 {
		// an iterator (iter.Seq[T]) that the target's `abstract` table replaces by the list of what it yields
		if lst, ok := f.t.Abstract[f.text(x.X)]; ok {
			if ys, ok := sig.Params().At(0).Type().Underlying().(*types.Signature); ok && ys.Params().Len() == 1 {
				if x.Value != nil {
					bad("two variables ranging over an iterator")
				}
				et := ys.Params().At(0).Type()
				elemTy, list = f.leanType(et), lst
				xt = types.NewSlice(et)
				x = &ast.RangeStmt{For: x.For, Key: nil, Value: x.Key, Tok: x.Tok, X: x.X, Body: x.Body}
			}
		}
	}
	if call, ok := x.X.(*ast.CallExpr); ok {
		if n, _ := f.callee(call); n == "slices.Backward" {
			// last element first; the index variable is not supported
			if id, ok := x.Key.(*ast.Ident); x.Key != nil && (!ok || id.Name != "_") {
				bad("index variable of a backward range")
			}
			st := f.info.TypeOf(call.Args[0]).Underlying().(*types.Slice)
			elemTy, list = f.leanType(st.Elem()), "("+f.expr(call.Args[0], &pre)+").reverse"
			xt = st
		}
	}
	switch u := xt.Underlying().(type) {
	case *types.Basic:
		if u.Info()&types.IsString != 0 {
			elemTy, list = "Char", f.expr(x.X, &pre)
		} else if u.Info()&types.IsInteger != 0 {
			elemTy, list = "Int", "(Go.intRange "+f.expr(x.X, &pre)+")"
			if x.Value != nil {
				bad("range over int with two variables")
			}
		}
	case *types.Slice:
		if list == "" {
			elemTy, list = f.leanType(u.Elem()), f.expr(x.X, &pre)
		}
	case *types.Map:
		isMap = true
		elemTy, list = "("+f.leanType(u.Key())+" × "+f.leanType(u.Elem())+")", f.expr(x.X, &pre)
	}
	if elemTy == "" {
		bad("range over %s", xt)
	}
	if x.Tok != token.DEFINE && (x.Key != nil || x.Value != nil) {
		bad("range assigning to existing variables")
	}
	varOf := func(e ast.Expr) *types.Var {
		if e == nil {
			return nil
		}
		id := e.(*ast.Ident)
		if id.Name == "_" {
			return nil
		}
		return f.info.Defs[id].(*types.Var)
	}
	keyV, valV := varOf(x.Key), varOf(x.Value)
	_, isInt := xt.Underlying().(*types.Basic)
	isInt = isInt && elemTy == "Int"
	state := f.assigned(x.Pos(), x.Body)
	free := f.freeVars(x.Pos(), x.Body)
	isState := map[*types.Var]bool{}
	for _, v := range state {
		isState[v] = true
	}
	var ro []*types.Var
	for _, v := range free {
		if !isState[v] {
			ro = append(ro, v)
		}
	}
	hasRet := hasReturn(x.Body)
	outTy := f.tupleType(state)
	nextOf := func(t string) string { return "pure " + t }
	if hasRet {
		outTy = "(Go.Ctl " + outTy + " " + f.resTy + ")"
		nextOf = func(t string) string { return "pure (.next " + t + ")" }
	}
	// index variable of a slice / string range
	withIdx := keyV != nil && !isMap && !isInt
	var binders, roArgs []string
	binders = append(binders, f.t.ExtraParams...)
	roArgs = append(roArgs, f.t.ExtraArgs...)
	selfAtCall := ""
	if f.t.Recursive {
		binders = append(binders, "(self__ : "+f.selfType()+")")
		roArgs = append(roArgs, "self__")
		selfAtCall = f.selfRef()
	}
	for _, v := range ro {
		binders = append(binders, f.binder(v))
		roArgs = append(roArgs, f.nameOf(v))
	}
	var stTypes, stNames []string
	if withIdx {
		stTypes = append(stTypes, "Int")
		stNames = append(stNames, f.nameOf(keyV))
	}
	for _, v := range state {
		stTypes = append(stTypes, f.leanType(v.Type()))
		stNames = append(stNames, f.nameOf(v))
	}
	elemPat := "_"
	switch {
	case isMap:
		kp, vp := "_", "_"
		if keyV != nil {
			kp = f.nameOf(keyV)
		}
		if valV != nil {
			vp = f.nameOf(valV)
		}
		elemPat = "(" + kp + ", " + vp + ")"
	case isInt:
		if keyV != nil {
			elemPat = f.nameOf(keyV)
		}
	case valV != nil:
		elemPat = f.nameOf(valV)
	}
	recArgs := append([]string{}, roArgs...)
	recArgs = append(recArgs, "rest__")
	for i, n := range stNames {
		if withIdx && i == 0 {
			recArgs = append(recArgs, "("+n+" + 1)")
		} else {
			recArgs = append(recArgs, n)
		}
	}
	rec := name + " " + strings.Join(recArgs, " ")
	kk := konts{fall: rec, cont: rec, brk: nextOf(f.tuple(state)), ret: func(v string) string { return "pure (.ret " + v + ")" }}
	saveAux := f.inAux
	f.inAux = true
	body := f.stmts(x.Body.List, kk)
	f.inAux = saveAux
	sig := "def " + name + " " + strings.Join(binders, " ") + " : List " + elemTy
	for _, t := range stTypes {
		sig += " → " + t
	}
	sig += " → M " + outTy
	pats := func(first string) string {
		return strings.Join(append([]string{first}, stNames...), ", ")
	}
	def := []string{sig, "  | " + pats("[]") + " => " + nextOf(f.tuple(state)), "  | " + pats(elemPat+" :: rest__") + " => do"}
	def = append(def, ind(body, 4)...)
	f.aux = append(f.aux, strings.Join(def, "\n"))
	callArgs := append([]string{}, roArgs...)
	for i := range callArgs {
		if callArgs[i] == "self__" && f.t.Recursive {
			callArgs[i] = selfAtCall
		}
	}
	callArgs = append(callArgs, list)
	for i, n := range stNames {
		if withIdx && i == 0 {
			callArgs = append(callArgs, "(0 : Int)")
		} else {
			callArgs = append(callArgs, n)
		}
	}
	lines, term := f.finishLoop(name, hasRet, state, strings.Join(callArgs, " "), rest, k)
	return append(pre, lines...), term
}

func (f *fn) forLoop(x *ast.ForStmt, rest []ast.Stmt, k konts) ([]string, bool) {
	f.loopN++
	short := "loop" + fmt.Sprint(f.loopN)
	name := f.leanFn + "." + short
	fuel, ok := f.t.Fuel[short]
	if !ok {
		bad("three-clause loop %s needs a fuel expression in the target list", short)
	}
	var pre []string
	if x.Init != nil {
		pre = append(pre, f.stmts1(x.Init)...)
	}
	// variables declared by the init statement are loop state as well
	outer := x.Body.Pos()
	var nodes []ast.Node
	nodes = append(nodes, x.Body)
	if x.Post != nil {
		nodes = append(nodes, x.Post)
	}
	state := f.assigned(outer, nodes...)
	var freeIn []ast.Node
	freeIn = append(freeIn, x.Body)
	isState := map[*types.Var]bool{}
	for _, v := range state {
		isState[v] = true
	}
	seen := map[*types.Var]bool{}
	var ro []*types.Var
	for _, n := range []ast.Node{x.Cond, x.Post, x.Body} {
		if n == nil || (n == ast.Node(x.Cond) && x.Cond == nil) || (n == ast.Node(x.Post) && x.Post == nil) {
			continue
		}
		for _, v := range f.freeVars(outer, n) {
			if !isState[v] && !seen[v] {
				seen[v] = true
				ro = append(ro, v)
			}
		}
	}
	sort.Slice(ro, func(i, j int) bool { return ro[i].Pos() < ro[j].Pos() })
	hasRet := hasReturn(x.Body)
	outTy := f.tupleType(state)
	nextOf := func(t string) string { return "pure " + t }
	if hasRet {
		outTy = "(Go.Ctl " + outTy + " " + f.resTy + ")"
		nextOf = func(t string) string { return "pure (.next " + t + ")" }
	}
	var binders, roArgs []string
	binders = append(binders, f.t.ExtraParams...)
	roArgs = append(roArgs, f.t.ExtraArgs...)
	selfAtCall := ""
	if f.t.Recursive {
		binders = append(binders, "(self__ : "+f.selfType()+")")
		roArgs = append(roArgs, "self__")
		selfAtCall = f.selfRef()
	}
	for _, v := range ro {
		binders = append(binders, f.binder(v))
		roArgs = append(roArgs, f.nameOf(v))
	}
	var stTypes, stNames []string
	for _, v := range state {
		stTypes = append(stTypes, f.leanType(v.Type()))
		stNames = append(stNames, f.nameOf(v))
	}
	rec := name + " " + strings.Join(append(append(append([]string{}, roArgs...), "fuel__"), stNames...), " ")
	var post []string
	if x.Post != nil {
		post = f.stmts1(x.Post)
	}
	step := strings.Join(append(append([]string{}, post...), rec), "\n")
	_ = step
	// `continue` and falling off the body both run the post statement and go round again
	again := append(append([]string{}, post...), rec)
	kk := konts{fall: "\x01", cont: "\x01", brk: nextOf(f.tuple(state)), ret: func(v string) string { return "pure (.ret " + v + ")" }}
	saveAux := f.inAux
	f.inAux = true
	raw := f.stmts(x.Body.List, kk)
	f.inAux = saveAux
	var body []string
	for _, l := range raw {
		if strings.TrimLeft(l, " ") == "\x01" {
			body = append(body, ind(again, len(l)-1)...)
		} else {
			body = append(body, l)
		}
	}
	var cpre []string
	cond := "true"
	if x.Cond != nil {
		cond = f.expr(x.Cond, &cpre)
	}
	sig := "def " + name + " " + strings.Join(binders, " ") + " : Nat"
	for _, t := range stTypes {
		sig += " → " + t
	}
	sig += " → M " + outTy
	pats := func(first string) string { return strings.Join(append([]string{first}, stNames...), ", ") }
	def := []string{sig, "  | " + pats("0") + " => throw .fuel", "  | " + pats("fuel__ + 1") + " => do"}
	def = append(def, ind(cpre, 4)...)
	def = append(def, "    if "+cond+" then do")
	def = append(def, ind(body, 6)...)
	def = append(def, "    else", "      "+nextOf(f.tuple(state)))
	f.aux = append(f.aux, strings.Join(def, "\n"))
	roAtCall := append([]string{}, roArgs...)
	for i := range roAtCall {
		if roAtCall[i] == "self__" && f.t.Recursive {
			roAtCall[i] = selfAtCall
		}
	}
	callArgs := append(append(roAtCall, "("+fuel+")"), stNames...)
	lines, term := f.finishLoop(name, hasRet, state, strings.Join(callArgs, " "), rest, k)
	return append(pre, lines...), term
}

// ---------------------------------------------------------------- functions

func (f *fn) translate() string {
	sig := f.info.Defs[f.decl.Name].(*types.Func).Type().(*types.Signature)
	if f.t.FuncLit > 0 {
		n := 0
		ast.Inspect(f.decl.Body, func(nd ast.Node) bool {
			if fl, ok := nd.(*ast.FuncLit); ok {
				n++
				if n == f.t.FuncLit {
					f.curried = fl
				}
			}
			return true
		})
		if f.curried == nil {
			bad("func_lit: the body has no function literal number %d", f.t.FuncLit)
		}
		sig = f.info.TypeOf(f.curried).(*types.Signature)
	}
	if f.t.Curried {
		if len(f.decl.Body.List) == 1 {
			if r, ok := f.decl.Body.List[0].(*ast.ReturnStmt); ok && len(r.Results) == 1 {
				f.curried, _ = r.Results[0].(*ast.FuncLit)
			}
		}
		if f.curried == nil {
			bad("curried: the body is not the return of one function literal")
		}
		sig = f.info.TypeOf(f.curried).(*types.Signature)
	}
	if !f.t.IterBody {
		f.resTy = f.resultType(sig, &f.t)
	}
	var binders []string
	binders = append(binders, f.t.ExtraParams...)
	for _, v := range f.paramVars() {
		binders = append(binders, f.binder(v))
	}
	var head []string
	if !f.t.ErrorResult && !f.t.IterBody {
		for i := 0; i < sig.Results().Len(); i++ {
			v := sig.Results().At(i)
			if v.Name() != "" && v.Name() != "_" {
				n := f.nameOf(v)
				f.named = append(f.named, n)
				head = append(head, "let "+n+" : "+f.leanType(v.Type())+" := "+f.zero(v.Type()))
			}
		}
	}
	bodyList := f.decl.Body.List
	if f.curried != nil {
		bodyList = f.curried.Body.List
	}
	if f.t.IterBody {
		var lit *ast.FuncLit
		ast.Inspect(f.decl.Body, func(n ast.Node) bool {
			if fl, ok := n.(*ast.FuncLit); ok && fl.Type.Params != nil && len(fl.Type.Params.List) == 1 &&
				len(fl.Type.Params.List[0].Names) == 1 && fl.Type.Params.List[0].Names[0].Name == "yield" {
				lit = fl // the innermost one is visited last
			}
			return true
		})
		if lit == nil {
			bad("iter_body: no function literal with a yield parameter")
		}
		f.yield = f.info.Defs[lit.Type.Params.List[0].Names[0]].(*types.Var)
		f.outVar = types.NewVar(lit.Pos(), f.pkg.Types, "out__", types.NewSlice(types.Typ[types.String]))
		f.named = []string{f.nameOf(f.outVar)}
		head = append(head, "let "+f.nameOf(f.outVar)+" : (List Str) := ([] : (List Str))")
		f.resTy = "(List Str)"
		bodyList = lit.Body.List
	}
	k := konts{fall: "pure " + f.namedTuple(), ret: func(v string) string { return "pure " + v }}
	if len(f.t.OutParams) > 0 {
		// the function writes to these parameters and returns nothing: their final content is the result
		if sig.Results().Len() != 0 {
			bad("out_params on a function with results")
		}
		var ns, ts []string
		for i := 0; i < sig.Params().Len(); i++ {
			for _, o := range f.t.OutParams {
				if sig.Params().At(i).Name() == o {
					ns = append(ns, f.nameOf(sig.Params().At(i)))
					ts = append(ts, f.leanType(sig.Params().At(i).Type()))
				}
			}
		}
		tup, tty := strings.Join(ns, ", "), strings.Join(ts, " × ")
		if len(ns) > 1 {
			tup, tty = "("+tup+")", "("+tty+")"
		}
		f.resTy = tty
		k = konts{fall: "pure " + tup, ret: func(v string) string { return "pure " + tup }}
	}
	if f.t.ResultRecv {
		if sig.Results().Len() != 0 || f.decl.Recv == nil || len(f.decl.Recv.List[0].Names) != 1 {
			bad("result_recv on a function with results or without a named receiver")
		}
		rv := f.info.Defs[f.decl.Recv.List[0].Names[0]].(*types.Var)
		f.resTy = f.leanType(rv.Type())
		f.named = []string{f.nameOf(rv)} // the receiver plays the part of a named result: a bare return hands back its current value
		k = konts{fall: "pure " + f.namedTuple(), ret: func(v string) string { return "pure " + v }}
	}
	body := append(head, f.stmts(bodyList, k)...)
	var def []string
	if f.t.Recursive {
		// general recursion: fuel first; running out of it is Err.fuel
		var tys, names []string
		for _, v := range f.paramVars() {
			tys = append(tys, f.leanType(v.Type()))
			names = append(names, f.nameOf(v))
		}
		wild := make([]string, len(names))
		for i := range wild {
			wild[i] = "_"
		}
		def = []string{"def " + f.leanFn + " " + strings.Join(f.t.ExtraParams, " ") + " : Nat → " + strings.Join(append(tys, "M "+f.resTy), " → "),
			"  | " + strings.Join(append([]string{"0"}, wild...), ", ") + " => throw .fuel",
			"  | " + strings.Join(append([]string{"fuel__ + 1"}, names...), ", ") + " => do"}
		def = append(def, ind(body, 4)...)
	} else {
		def = []string{"def " + f.leanFn + " " + strings.Join(binders, " ") + " : M " + f.resTy + " := do"}
		def = append(def, ind(body, 2)...)
	}
	pos := f.fset.Position(f.decl.Pos())
	doc := fmt.Sprintf("/-- translated from `%s` (%s) -/", f.t.Func, relPath(pos.Filename))
	return strings.Join(append(f.aux, doc+"\n"+strings.Join(def, "\n")), "\n\n")
}

var repoRoot string

func relPath(p string) string {
	if strings.HasPrefix(p, repoRoot+"/") {
		return p[len(repoRoot)+1:]
	}
	return p
}

func findDecl(p *packages.Package, name string) *ast.FuncDecl {
	recv := ""
	if i := strings.Index(name, "."); i >= 0 {
		recv, name = name[:i], name[i+1:]
	}
	for _, file := range p.Syntax {
		for _, d := range file.Decls {
			fd, ok := d.(*ast.FuncDecl)
			if !ok || fd.Name.Name != name || fd.Body == nil {
				continue
			}
			if recv == "" && fd.Recv == nil {
				return fd
			}
			if recv != "" && fd.Recv != nil {
				t := fd.Recv.List[0].Type
				if s, ok := t.(*ast.StarExpr); ok {
					t = s.X
				}
				if id, ok := t.(*ast.Ident); ok && id.Name == recv {
					return fd
				}
			}
		}
	}
	return nil
}

func main() {
	if len(os.Args) != 5 {
		fmt.Fprintln(os.Stderr, "usage: go2lean <repo> <targets.json> <lean/Gengo/Gen> <report.json>")
		os.Exit(2)
	}
	repoRoot = os.Args[1]
	var cfg config
	raw, err := os.ReadFile(os.Args[2])
	if err == nil {
		err = json.Unmarshal(raw, &cfg)
	}
	if err != nil {
		fmt.Fprintln(os.Stderr, "go2lean:", err)
		os.Exit(2)
	}
	os.Setenv("GOFLAGS", "-mod=mod")
	pats := map[string]bool{}
	for _, t := range cfg.Targets {
		pats[t.Pkg] = true
	}
	var patList []string
	for p := range pats {
		patList = append(patList, p)
	}
	sort.Strings(patList)
	pkgs, err := packages.Load(&packages.Config{
		Mode: packages.NeedName | packages.NeedFiles | packages.NeedSyntax | packages.NeedTypes | packages.NeedTypesInfo | packages.NeedImports | packages.NeedDeps,
		Dir:  repoRoot,
	}, patList...)
	if err != nil {
		fmt.Fprintln(os.Stderr, "go2lean: load:", err)
		os.Exit(2)
	}
	byPath := map[string]*packages.Package{}
	for _, p := range pkgs {
		byPath[p.PkgPath] = p
	}
	all := map[string]*target{}
	for i := range cfg.Targets {
		t := &cfg.Targets[i]
		all[t.Pkg+"."+t.Func] = t
	}
	type rep struct {
		Func  string   `json:"func"`
		Lean  string   `json:"lean"`
		Props []string `json:"props"`
		OK    bool     `json:"ok"`
		Error string   `json:"error,omitempty"`
		File  string   `json:"file,omitempty"`
	}
	var reports []rep
	groupImports := map[string][]string{}
	for _, t := range cfg.Targets {
		g := t.Group
		if g == "" {
			g = "Misc"
		}
		for _, im := range t.Imports {
			dup := false
			for _, have := range groupImports[g] {
				dup = dup || have == im
			}
			if !dup {
				groupImports[g] = append(groupImports[g], im)
			}
		}
	}
	header := func(group string) []string {
		var extra string
		for _, im := range groupImports[group] {
			extra += "import " + im + "\n"
		}
		return []string{extra + "import Gengo.Model.GoRt", "/-! REGENERATED by harness/cmd/go2lean from the Go sources of the checkout under test — do not edit.",
			"Group " + group + ": every definition is the translation of one Go function (named in its doc comment);",
			"`Gengo/Props/Tr*.lean` proves it equal to the hand-written model. -/", "namespace Gengo.Code", "open Gengo Gengo.Go", "set_option linter.unusedVariables false", ""}
	}
	groups := map[string][]string{}
	var order []string
	for i := range cfg.Targets {
		t := cfg.Targets[i]
		if t.Group == "" {
			t.Group = "Misc"
		}
		if _, ok := groups[t.Group]; !ok {
			groups[t.Group] = header(t.Group)
			order = append(order, t.Group)
		}
		out := groups[t.Group]
		r := rep{Func: t.Pkg + "." + t.Func, Lean: leanName(&t), Props: t.Props}
		func() {
			defer func() {
				if e := recover(); e != nil {
					if u, ok := e.(unsupported); ok {
						r.Error = u.msg
						return
					}
					r.Error = fmt.Sprint("internal: ", e)
				}
			}()
			p := byPath[t.Pkg]
			if p == nil || len(p.Errors) > 0 {
				bad("package %s does not load", t.Pkg)
			}
			d := findDecl(p, t.Func)
			if d == nil {
				bad("function %s not found in %s", t.Func, t.Pkg)
			}
			f := &fn{t: t, pkg: p, decl: d, info: p.TypesInfo, fset: p.Fset, names: map[types.Object]string{}, taken: map[string]bool{}, all: all, leanFn: leanName(&t)}
			for _, a := range t.ExtraArgs {
				f.taken[a] = true
			}
			f.taken["p"] = true
			r.File = relPath(p.Fset.Position(d.Pos()).Filename)
			out = append(out, f.translate(), "")
			r.OK = true
		}()
		if !r.OK {
			out = append(out, fmt.Sprintf("/- NOT TRANSLATED: %s — %s -/", r.Func, strings.ReplaceAll(r.Error, "-/", "- /")), "")
		}
		groups[t.Group] = out
		reports = append(reports, r)
	}
	writeIfChanged := func(path, text string) {
		if old, err := os.ReadFile(path); err != nil || string(old) != text {
			if err := os.WriteFile(path, []byte(text), 0o644); err != nil {
				fmt.Fprintln(os.Stderr, "go2lean:", err)
				os.Exit(2)
			}
		}
	}
	codeDir := filepath.Join(os.Args[3], "Code")
	os.MkdirAll(codeDir, 0o755)
	keep := map[string]bool{}
	all2 := []string{"/-! REGENERATED by harness/cmd/go2lean — every group of translated functions -/"}
	var imports []string
	for _, g := range order {
		writeIfChanged(filepath.Join(codeDir, g+".lean"), strings.Join(append(groups[g], "end Gengo.Code"), "\n")+"\n")
		keep[g+".lean"] = true
		imports = append(imports, "import Gengo.Gen.Code."+g)
	}
	writeIfChanged(filepath.Join(os.Args[3], "Code.lean"), strings.Join(append(imports, all2...), "\n")+"\n")
	if es, err := os.ReadDir(codeDir); err == nil {
		for _, e := range es {
			if !keep[e.Name()] {
				os.Remove(filepath.Join(codeDir, e.Name()))
			}
		}
	}
	rb, _ := json.MarshalIndent(reports, "", " ")
	os.WriteFile(os.Args[4], rb, 0o644)
	for _, r := range reports {
		if !r.OK {
			fmt.Printf("go2lean: %s: %s\n", r.Func, r.Error)
		}
	}
}
