// Package canon prints a Go value canonically: nil and empty slices/maps identified, map keys
// sorted, pointers followed, floats by value (-0 = 0), unexported fields skipped.  It is compiled
// into the harness (applied to the original value) and into the generated programs of the
// compile-and-run oracles (applied to what the rendered literal evaluates to).
package canon

import (
	"fmt"
	"reflect"
	"sort"
	"strconv"
	"strings"
)

func Of(v any) string { return Value(reflect.ValueOf(v)) }

func Value(rv reflect.Value) string {
	if !rv.IsValid() {
		return "invalid"
	}
	t := rv.Type()
	switch rv.Kind() {
	case reflect.Bool:
		return fmt.Sprintf("%s(%v)", t, rv.Bool())
	case reflect.Int, reflect.Int8, reflect.Int16, reflect.Int32, reflect.Int64:
		return fmt.Sprintf("%s(%d)", t, rv.Int())
	case reflect.Uint, reflect.Uint8, reflect.Uint16, reflect.Uint32, reflect.Uint64, reflect.Uintptr:
		return fmt.Sprintf("%s(%d)", t, rv.Uint())
	case reflect.Float32, reflect.Float64:
		f := rv.Float()
		if f == 0 {
			f = 0
		}
		return fmt.Sprintf("%s(%s)", t, strconv.FormatFloat(f, 'g', -1, 64))
	case reflect.String:
		return fmt.Sprintf("%s(%q)", t, rv.String())
	case reflect.Ptr:
		if rv.IsNil() {
			return fmt.Sprintf("%s(nil)", t)
		}
		return fmt.Sprintf("%s(&%s)", t, Value(rv.Elem()))
	case reflect.Interface:
		if rv.IsNil() {
			return fmt.Sprintf("%s(nil)", t)
		}
		return fmt.Sprintf("%s(%s)", t, Value(rv.Elem()))
	case reflect.Slice:
		if rv.Len() == 0 {
			return fmt.Sprintf("%s[]", t)
		}
		fallthrough
	case reflect.Array:
		var parts []string
		for i := 0; i < rv.Len(); i++ {
			parts = append(parts, Value(rv.Index(i)))
		}
		return fmt.Sprintf("%s[%s]", t, strings.Join(parts, " "))
	case reflect.Map:
		var parts []string
		for _, k := range rv.MapKeys() {
			parts = append(parts, Value(k)+":"+Value(rv.MapIndex(k)))
		}
		sort.Strings(parts)
		return fmt.Sprintf("%s{%s}", t, strings.Join(parts, " "))
	case reflect.Struct:
		var parts []string
		for i := 0; i < rv.NumField(); i++ {
			if t.Field(i).IsExported() {
				parts = append(parts, t.Field(i).Name+"="+Value(rv.Field(i)))
			}
		}
		return fmt.Sprintf("%s{%s}", t, strings.Join(parts, " "))
	}
	return fmt.Sprintf("%s(?)", t)
}
