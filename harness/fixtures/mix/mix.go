// Package mix: a named struct whose pointer fields point into two packages that want the same local import name.  Its
// own name says nothing about them, so which of the two a literal mentions first depends on which fields are set.
package mix

import (
	futil2 "verif/harness/fixtures/other/util"
	futil "verif/harness/fixtures/util"
)

type Doc struct {
	N string
	L *futil.Sub
	R *futil2.Item
}
