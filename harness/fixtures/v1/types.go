// Package v1 is a fixture whose import path ends in a version segment.
package v1

type Item struct {
	ID   int64
	Tags map[string]string
}

type Kind string

type Count uint16
