// Package util (the second one): its last path segment clashes with fixtures/util on purpose.
package util

import (
	"time"

	futil "verif/harness/fixtures/util"
	v1 "verif/harness/fixtures/v1"
)

type Item struct {
	X float64
}

type Obj struct {
	P *Item
	M map[string]Item
}

type Dur int32

type Gen1[T any] struct{ W []T }

// Wrap mixes types of several packages.
type Wrap struct {
	Own    Item
	Other  *futil.Item
	Ds     []futil.Dur
	ByKind map[v1.Kind]futil.Sub
	T      time.Duration
	PT     *time.Duration
	PD     *Dur
	Cnt    v1.Count
	Items  []v1.Item
}
