// Package util holds fixture types the harness builds values and reflect types from.
package util

type Item struct {
	A int
	B string
}

type Obj struct {
	Name  string
	Items []Item
	inner int
}

type Dur int64

type Name string

type Flag bool

type Ratio float64

type Gen1[T any] struct{ V T }

type Gen2[T, U any] struct {
	A T
	B U
}

type Err interface{ error }

// defined types whose underlying type is not a struct or a scalar: a printer that goes by the kind before it goes by
// the name loses them
type ItemRef *Item

type Handle *int

type Items []Item

type Index map[string]*Item

type Hook func(Item) error

type Pipe chan Item

type Quad [4]Dur

// Maß: exported fields and a type name that do not start with an ASCII letter (exported is decided by Unicode upper
// case, not by A–Z), next to an unexported field that starts with a non-ASCII lower-case letter.
type Maß struct {
	Länge float64
	Ärmel int
	Ωmega string
	Номер []int
	étage int
	X     *Maß
}

// Sub and In are the workhorses of the value-literal checks.
type Sub struct {
	A int
	B []string
}

type In struct {
	X  int
	Y  string
	P  *int
	S  []int
	M  map[string]int
	N  Sub
	Q  *Sub
	R  Dur
	T  *Name
	U  map[string]Sub
	V  [2]Sub
	Z  *string
	F  float64
	K  rune
	L  []*Sub
	O  map[int]string
	G  float32
	H  uint64
	I  int8
	J  bool
	W  map[Name]Dur
	D  *Dur
	E  *Ratio
	B8 uint8
	C  Flag
	PB *bool
	PF *float64
	MS map[string]*Sub
	AS [3]int
}
