module verif/harness

go 1.24.2

require (
	github.com/octohelm/gengo v0.0.0
	golang.org/x/text v0.24.0
)

replace github.com/octohelm/gengo => /repo
