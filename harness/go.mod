module verif/harness

go 1.24.2

require (
	github.com/octohelm/gengo v0.0.0
	github.com/octohelm/x v0.0.0-20250409031213-9c254440c2b8
	golang.org/x/mod v0.24.0
	golang.org/x/text v0.24.0
	golang.org/x/tools v0.32.0
	mvdan.cc/gofumpt v0.8.0
)

require (
	github.com/go-courier/logr v0.3.2 // indirect
	github.com/google/go-cmp v0.7.0 // indirect
	golang.org/x/sync v0.13.0 // indirect
)

replace github.com/octohelm/gengo => /repo
