module verif/extract

go 1.23
