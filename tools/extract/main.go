// extract regenerates, from /repo's current sources, the data the Lean models depend on
// (lean/Gengo/Gen/*.lean) together with source fingerprints and a few structural facts
// (.work/extract.json).  go/ast only; no dependency outside the standard library.
package main

import (
	"bytes"
	"crypto/sha256"
	"encoding/hex"
	"encoding/json"
	"fmt"
	"go/ast"
	"go/parser"
	"go/printer"
	"go/token"
	"os"
	"path/filepath"
	"sort"
	"strconv"
	"strings"
)

var repo, outDir, workDir string

func must(err error) {
	if err != nil {
		fmt.Fprintln(os.Stderr, "extract:", err)
		os.Exit(2)
	}
}

func parse(rel string) (*token.FileSet, *ast.File) {
	fset := token.NewFileSet()
	f, err := parser.ParseFile(fset, filepath.Join(repo, rel), nil, parser.ParseComments)
	must(err)
	return fset, f
}

func leanStr(s string) string {
	// a Lean string literal with every byte outside printable ASCII escaped
	var b strings.Builder
	b.WriteByte('"')
	for _, r := range s {
		switch {
		case r == '"':
			b.WriteString(`\"`)
		case r == '\\':
			b.WriteString(`\\`)
		case r == '\n':
			b.WriteString(`\n`)
		case r == '\t':
			b.WriteString(`\t`)
		case r >= 0x20 && r < 0x7f:
			b.WriteRune(r)
		default:
			fmt.Fprintf(&b, `\u{%x}`, r)
		}
	}
	b.WriteByte('"')
	return b.String()
}

// charList renders a string as an explicit list of character literals (cheap for the
// kernel to evaluate, unlike `"…".toList`).
func charList(s string) string {
	parts := []string{}
	for _, r := range s {
		switch {
		case r == '\'':
			parts = append(parts, `'\''`)
		case r == '\\':
			parts = append(parts, `'\\'`)
		case r == '\n':
			parts = append(parts, `'\n'`)
		case r == '\t':
			parts = append(parts, `'\t'`)
		case r >= 0x20 && r < 0x7f:
			parts = append(parts, "'"+string(r)+"'")
		default:
			parts = append(parts, fmt.Sprintf(`'\u{%x}'`, r))
		}
	}
	return "[" + strings.Join(parts, ",") + "]"
}

func writeIfChanged(path string, content string) bool {
	old, err := os.ReadFile(path)
	if err == nil && string(old) == content {
		return false
	}
	must(os.MkdirAll(filepath.Dir(path), 0o755))
	must(os.WriteFile(path, []byte(content), 0o644))
	return true
}

func findFunc(f *ast.File, recv, name string) *ast.FuncDecl {
	for _, d := range f.Decls {
		fd, ok := d.(*ast.FuncDecl)
		if !ok || fd.Name.Name != name {
			continue
		}
		r := ""
		if fd.Recv != nil && len(fd.Recv.List) > 0 {
			t := fd.Recv.List[0].Type
			if s, ok := t.(*ast.StarExpr); ok {
				t = s.X
			}
			if ix, ok := t.(*ast.IndexExpr); ok {
				t = ix.X
			}
			if id, ok := t.(*ast.Ident); ok {
				r = id.Name
			}
		}
		if r == recv {
			return fd
		}
	}
	return nil
}

func strLit(e ast.Expr) (string, bool) {
	bl, ok := e.(*ast.BasicLit)
	if !ok || bl.Kind != token.STRING {
		return "", false
	}
	s, err := strconv.Unquote(bl.Value)
	return s, err == nil
}

// callsOf returns, in source order, the string-literal argument #idx of every call sel.fn inside n.
func callsOf(n ast.Node, sel, fn string, idx int) []string {
	var out []string
	ast.Inspect(n, func(x ast.Node) bool {
		c, ok := x.(*ast.CallExpr)
		if !ok {
			return true
		}
		se, ok := c.Fun.(*ast.SelectorExpr)
		if !ok || se.Sel.Name != fn {
			return true
		}
		if id, ok := se.X.(*ast.Ident); !ok || id.Name != sel {
			return true
		}
		if len(c.Args) > idx {
			if s, ok := strLit(c.Args[idx]); ok {
				out = append(out, s)
			}
		}
		return true
	})
	return out
}

func fingerprint(fset *token.FileSet, fd *ast.FuncDecl) string {
	if fd == nil {
		return "missing"
	}
	cp := *fd
	cp.Doc = nil
	var b bytes.Buffer
	printer.Fprint(&b, token.NewFileSet(), &cp) // fresh fileset: positions (and free comments) dropped
	_ = fset
	h := sha256.Sum256(b.Bytes())
	return hex.EncodeToString(h[:8])
}

// source files whose functions the hand-written models mirror, per property (all functions of
// each file are fingerprinted)
var mirrored = map[string][]string{
	"C01": {"pkg/gengo/genfile.go"},
	"C02": {"pkg/gengo/context.go", "pkg/gengo/genfile.go", "pkg/sumfile/file.go"},
	"C03": {"pkg/namer/import_tracker.go", "pkg/namer/namer.go", "pkg/namer/std.go", "pkg/gengo/snippet/snippet__id.go"},
	"C04": {"pkg/gengo/context.go", "pkg/types/load.go", "pkg/sumfile/file.go", "pkg/gengo/genfile.go", "pkg/gengo/internal/dumper.go"},
	"C05": {"pkg/gengo/context.go", "pkg/gengo/genfile.go"},
	"C06": {"pkg/gengo/context.go", "pkg/gengo/genfile.go", "pkg/types/comments.go"},
	"C07": {"pkg/gengo/context.go", "pkg/gengo/genfile.go"},
	"C08": {"pkg/gengo/context.go", "pkg/types/load.go", "pkg/sumfile/file.go"},
	"C09": {"pkg/gengo/snippet/printer__template.go", "pkg/gengo/snippet/printer.go", "pkg/gengo/snippet/snippet.go", "pkg/gengo/snippet/snippet__comment.go", "pkg/gengo/snippet/snippet__go_directive.go", "pkg/gengo/snippet/snippet__block.go"},
	"C10": {"pkg/gengo/internal/dumper.go", "pkg/gengo/snippet/snippet__value.go"},
	"C11": {"pkg/gengo/internal/dumper.go", "pkg/gengo/snippet/snippet__id.go", "pkg/namer/namer.go", "pkg/types/ref.go"},
	"C12": {"pkg/types/comments.go", "pkg/types/package.go"},
	"C13": {"pkg/types/package.go", "pkg/types/load.go"},
	"C14": {"pkg/types/function_result_resolver.go", "pkg/types/function_result.go"},
	"C15": {"pkg/types/ref.go", "pkg/namer/namer.go", "pkg/gengo/helper.go"},
	"C16": {"devpkg/runtimedocgen/runtimedoc.go", "pkg/gengo/context.go"},
	"C17": {"devpkg/deepcopygen/deepcopy.go", "devpkg/deepcopygen/helper/copy_fields.go"},
	"C18": {"devpkg/partialstruct/partialstruct.go", "devpkg/deepcopygen/helper/copy_fields.go"},
	"C19": {"pkg/camelcase/camelcase.go", "pkg/camelcase/naming.go"},
	"C20": {"pkg/inflector/internal/rule.go", "pkg/inflector/internal/inflector.go", "pkg/inflector/api.go"},
}

func posOfCall(n ast.Node, sel, fn string) []token.Pos {
	var out []token.Pos
	ast.Inspect(n, func(x ast.Node) bool {
		if c, ok := x.(*ast.CallExpr); ok {
			if se, ok := c.Fun.(*ast.SelectorExpr); ok && se.Sel.Name == fn {
				if sel == "" {
					out = append(out, c.Pos())
				} else if id, ok := se.X.(*ast.Ident); ok && id.Name == sel {
					out = append(out, c.Pos())
				}
			}
		}
		return true
	})
	return out
}

func main() {
	if len(os.Args) != 4 {
		fmt.Fprintln(os.Stderr, "usage: extract <repo> <lean/Gengo/Gen dir> <work dir>")
		os.Exit(2)
	}
	repo, outDir, workDir = os.Args[1], os.Args[2], os.Args[3]
	changed := []string{}
	emit := func(name, content string) {
		if writeIfChanged(filepath.Join(outDir, name), content) {
			changed = append(changed, name)
		}
	}

	// ---- std.list
	{
		data, err := os.ReadFile(filepath.Join(repo, "pkg/namer/std.list"))
		must(err)
		var b strings.Builder
		b.WriteString("/-! REGENERATED by tools/extract from pkg/namer/std.list — do not edit -/\nnamespace Gengo.Gen\n\ndef stdPaths : List (List Char) := [\n")
		first := true
		for _, l := range strings.Split(string(data), "\n") {
			if l == "" { // bufio.Scanner lines; std.go skips empty ones
				continue
			}
			l = strings.TrimSuffix(l, "\r")
			if !first {
				b.WriteString(",\n")
			}
			first = false
			b.WriteString("  " + charList(l))
		}
		b.WriteString("\n]\n\nend Gengo.Gen\n")
		emit("StdList.lean", b.String())
	}

	// ---- inflector tables
	{
		_, f := parse("pkg/inflector/internal/rules.go")
		type rule struct {
			typ       string
			irregular [][2]string
			rules     [][2]string
		}
		var rs []rule
		ast.Inspect(f, func(n ast.Node) bool {
			cl, ok := n.(*ast.CompositeLit)
			if !ok {
				return true
			}
			if id, ok := cl.Type.(*ast.Ident); !ok || id.Name != "Rule" {
				return true
			}
			r := rule{}
			for _, el := range cl.Elts {
				kv, ok := el.(*ast.KeyValueExpr)
				if !ok {
					continue
				}
				k := kv.Key.(*ast.Ident).Name
				switch k {
				case "Type":
					if id, ok := kv.Value.(*ast.Ident); ok {
						r.typ = id.Name
					}
				case "Irregular", "Rules":
					if lst, ok := kv.Value.(*ast.CompositeLit); ok {
						for _, it := range lst.Elts {
							if icl, ok := it.(*ast.CompositeLit); ok && len(icl.Elts) == 2 {
								a, ok1 := strLit(valueOf(icl.Elts[0]))
								c, ok2 := strLit(valueOf(icl.Elts[1]))
								if ok1 && ok2 {
									if k == "Irregular" {
										r.irregular = append(r.irregular, [2]string{a, c})
									} else {
										r.rules = append(r.rules, [2]string{a, c})
									}
								}
							}
						}
					}
				}
			}
			rs = append(rs, r)
			return false
		})
		var b strings.Builder
		b.WriteString("/-! REGENERATED by tools/extract from pkg/inflector/internal/rules.go — do not edit -/\nnamespace Gengo.Inflect\n\n")
		for _, want := range []struct{ typ, name string }{{"Plural", "irregularPlural"}, {"Singular", "irregularSingular"}} {
			b.WriteString("def " + want.name + " : List (List Char × List Char) := [\n")
			first := true
			for _, r := range rs {
				if r.typ != want.typ {
					continue
				}
				for _, it := range r.irregular {
					if !first {
						b.WriteString(",\n")
					}
					first = false
					b.WriteString("  (" + charList(it[0]) + ", " + charList(it[1]) + ")")
				}
			}
			b.WriteString("\n]\n\n")
		}
		b.WriteString("end Gengo.Inflect\n")
		emit("InflectTables.lean", b.String())
	}

	// ---- literals of the assembly, sum file name, markers, tag prefix
	facts := map[string]any{}
	{
		fset, f := parse("pkg/gengo/genfile.go")
		var b strings.Builder
		b.WriteString("/-! REGENERATED by tools/extract from pkg/gengo/genfile.go, pkg/sumfile/file.go, pkg/types/comments.go, pkg/gengo/context.go — do not edit -/\nnamespace Gengo.Gen\n\n")
		wf := findFunc(f, "genfile", "WriteToFile")
		hdr := ""
		if wf != nil {
			if l := callsOf(wf, "fmt", "Fprintf", 1); len(l) > 0 {
				hdr = l[0]
			}
		}
		parts := strings.Split(hdr, "%s")
		b.WriteString("/-- the header `Fprintf` format of `WriteToFile`, split at its `%s` verbs -/\n")
		b.WriteString("def headerParts : List (List Char) := [" + joinMap(parts, charList) + "]\n\n")
		wi := findFunc(f, "", "writeImports")
		var il []string
		if wi != nil {
			il = callsOf(wi, "fmt", "Fprintf", 1)
		}
		for len(il) < 3 {
			il = append(il, "")
		}
		b.WriteString("def importOpen : List Char := " + charList(il[0]) + "\n")
		b.WriteString("/-- the per-import `Fprintf` format, split at `%s` -/\n")
		b.WriteString("def importLineParts : List (List Char) := [" + joinMap(strings.Split(il[1], "%s"), charList) + "]\n")
		b.WriteString("def importClose : List Char := " + charList(il[2]) + "\n\n")
		fn := findFunc(f, "genfile", "Filename")
		ff := ""
		if fn != nil {
			if l := callsOf(fn, "fmt", "Sprintf", 0); len(l) > 0 {
				ff = l[0]
			}
		}
		b.WriteString("/-- the `Sprintf` format of `genfile.Filename`, split at `%s` -/\n")
		b.WriteString("def fileNameParts : List (List Char) := [" + joinMap(strings.Split(ff, "%s"), charList) + "]\n\n")

		// sum file name
		_, sf := parse("pkg/sumfile/file.go")
		sumName := ""
		for _, d := range sf.Decls {
			if gd, ok := d.(*ast.GenDecl); ok && gd.Tok == token.CONST {
				for _, sp := range gd.Specs {
					vs := sp.(*ast.ValueSpec)
					for i, n := range vs.Names {
						if n.Name == "sumFilename" && i < len(vs.Values) {
							sumName, _ = strLit(vs.Values[i])
						}
					}
				}
			}
		}
		b.WriteString("def sumFilename : List Char := " + charList(sumName) + "\n\n")

		// default markers of ExtractCommentTags
		_, cf := parse("pkg/types/comments.go")
		markers := ""
		if fd := findFunc(cf, "", "ExtractCommentTags"); fd != nil {
			ast.Inspect(fd, func(n ast.Node) bool {
				if cl, ok := n.(*ast.CompositeLit); ok {
					if at, ok := cl.Type.(*ast.ArrayType); ok {
						if id, ok := at.Elt.(*ast.Ident); ok && id.Name == "byte" && markers == "" {
							for _, e := range cl.Elts {
								if bl, ok := e.(*ast.BasicLit); ok && bl.Kind == token.CHAR {
									if r, _, _, err := strconv.UnquoteChar(bl.Value[1:len(bl.Value)-1], '\''); err == nil {
										markers += string(r)
									}
								}
							}
						}
					}
				}
				return true
			})
		}
		b.WriteString("def defaultMarkers : List Char := " + charList(markers) + "\n\n")

		// tag prefix of IsGeneratorEnabled
		_, xf := parse("pkg/gengo/context.go")
		prefix := ""
		if fd := findFunc(xf, "", "IsGeneratorEnabled"); fd != nil {
			ast.Inspect(fd, func(n ast.Node) bool {
				if be, ok := n.(*ast.BinaryExpr); ok && be.Op == token.ADD && prefix == "" {
					if s, ok := strLit(be.X); ok {
						prefix = s
					}
				}
				return true
			})
		}
		b.WriteString("def tagPrefix : List Char := " + charList(prefix) + "\n\n")
		b.WriteString("end Gengo.Gen\n")
		emit("Consts.lean", b.String())

		// what WriteToFile hands to gofumpt (C01: "for the module's language version")
		if wf != nil {
			ast.Inspect(wf, func(n ast.Node) bool {
				cl, ok := n.(*ast.CompositeLit)
				if !ok {
					return true
				}
				for _, e := range cl.Elts {
					kv, ok := e.(*ast.KeyValueExpr)
					if !ok {
						continue
					}
					if k, ok := kv.Key.(*ast.Ident); ok && (k.Name == "LangVersion" || k.Name == "ModulePath") {
						var b bytes.Buffer
						printer.Fprint(&b, fset, kv.Value)
						facts["gofumpt_"+k.Name] = b.String()
					}
				}
				return true
			})
		}
		// structural facts for C02
		if wf != nil {
			pp := posOfCall(wf, "parser", "ParseFile")
			op := append(posOfCall(wf, "os", "OpenFile"), posOfCall(wf, "os", "Create")...)
			ok := len(pp) == 1 && len(op) >= 1
			for _, o := range op {
				if len(pp) == 0 || o < pp[0] {
					ok = false
				}
			}
			facts["WriteToFile_parse_before_open"] = ok
		}
		if ex := findFunc(xf, "gengoCtx", "Execute"); ex != nil {
			saves := posOfCall(ex, "", "Save")
			var lastLoopEnd token.Pos
			ast.Inspect(ex, func(n ast.Node) bool {
				if rs, ok := n.(*ast.RangeStmt); ok && rs.End() > lastLoopEnd {
					lastLoopEnd = rs.End()
				}
				return true
			})
			ok := len(saves) == 1 && saves[0] > lastLoopEnd
			facts["Execute_single_Save_after_loops"] = ok
			// no Save anywhere else in pkg/gengo
			cnt := 0
			files, _ := filepath.Glob(filepath.Join(repo, "pkg/gengo/*.go"))
			for _, fn := range files {
				if strings.HasSuffix(fn, "_test.go") {
					continue
				}
				fs2 := token.NewFileSet()
				g, err := parser.ParseFile(fs2, fn, nil, 0)
				if err == nil {
					cnt += len(posOfCall(g, "", "Save"))
				}
			}
			facts["pkg_gengo_Save_calls"] = cnt
		}
	}

	// ---- fingerprints
	fps := map[string]map[string]string{}
	fileFps := map[string]map[string]string{}
	for prop, files := range mirrored {
		fps[prop] = map[string]string{}
		for _, file := range files {
			m, ok := fileFps[file]
			if !ok {
				m = map[string]string{}
				fs2 := token.NewFileSet()
				g, err := parser.ParseFile(fs2, filepath.Join(repo, file), nil, 0)
				if err != nil {
					m["*"] = "unparsable"
				} else {
					for _, d := range g.Decls {
						if fd, ok := d.(*ast.FuncDecl); ok {
							m[recvName(fd)+"."+fd.Name.Name] = fingerprint(fs2, fd)
						}
					}
				}
				fileFps[file] = m
			}
			for k, v := range m {
				fps[prop][file+":"+k] = v
			}
		}
	}
	sort.Strings(changed)
	out := map[string]any{"fingerprints": fps, "facts": facts, "regenerated_changed": changed}
	b, _ := json.MarshalIndent(out, "", " ")
	must(os.MkdirAll(workDir, 0o755))
	must(os.WriteFile(filepath.Join(workDir, "extract.json"), b, 0o644))
}

func recvName(fd *ast.FuncDecl) string {
	if fd.Recv == nil || len(fd.Recv.List) == 0 {
		return ""
	}
	t := fd.Recv.List[0].Type
	if s, ok := t.(*ast.StarExpr); ok {
		t = s.X
	}
	if ix, ok := t.(*ast.IndexExpr); ok {
		t = ix.X
	}
	if id, ok := t.(*ast.Ident); ok {
		return id.Name
	}
	return "?"
}

func valueOf(e ast.Expr) ast.Expr {
	if kv, ok := e.(*ast.KeyValueExpr); ok {
		return kv.Value
	}
	return e
}

func joinMap(xs []string, f func(string) string) string {
	o := make([]string, len(xs))
	for i, x := range xs {
		o[i] = f(x)
	}
	return strings.Join(o, ", ")
}
