#!/bin/bash
# tools/tryseed.sh <id> <prop> [tier]: run a property's check against a scratch checkout of /repo that carries seeded/<id>/patch.diff
ID=$1; PROP=$2; TIER=${3:-quick}
V=/tmp/wtm/$ID
git -C /repo worktree remove --force $V 2>/dev/null; rm -rf $V; mkdir -p /tmp/wtm
git -C /repo worktree add -q --detach $V HEAD || exit 2
git -C $V apply /verif/seeded/$ID/patch.diff || { echo "patch does not apply"; git -C /repo worktree remove --force $V; exit 2; }
cd /verif
VERIF_REPO=$V ./check $PROP --tier $TIER 2>&1 | grep -v "KNOWN-FINDING\|conda" | grep "^check\|^VIOLATION\|framework\|proof_broken\|broken" | head -12
git -C /repo worktree remove --force $V
