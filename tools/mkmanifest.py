#!/usr/bin/env python3
"""Regenerates /verif/MANIFEST.json from the table below (kept next to the code so the manifest
stays valid while checks come online one by one)."""
import json, os

ROOT = os.path.dirname(os.path.dirname(os.path.abspath(__file__)))
BASELINE = json.load(open("/root/.vp/BASELINE.json"))["cmd"] if os.path.exists("/root/.vp/BASELINE.json") else ""

# id -> (built?, level text, level note, technique, design ref)
P = {
 "C03": (True,
  "Lean theorems over a model of the import tracker and the raw namer (adds_inv: after any sequence the two tables are inverse bijections, for any candidate function; add_stable; add_binds + add_valid + cfgF_ok: the repaired tracker — candidates filtered by token.IsIdentifier, numbered fallback, termination by a pigeonhole lemma — always binds a valid non-keyword identifier; imports_exact over the writer token model; std_reserved; kernel-evaluated facts about the std table regenerated from std.list), tied to the code by a differential run of the compiled model (camel-case model, candidate names, std table folded from the regenerated list) against NewRawNamer/NewDefaultImportTracker on path sequences and judged by an independent oracle (Go's token.IsIdentifier, uniqueness, the assembled file parsed with go/parser: imports = used qualifiers).",
  "Trusted: Lean kernel; ASCII import paths (module.CheckImportPath alphabet) in the model of toLocalName; strings.ToLower∘cases.Title on ASCII as ASCII lower-casing; reference kinds that go through the type printer (named, generic, literal) are oracle-only in this check (their model is C11's); the correspondence is a sample.",
  "Lean 4 proof (invariant by induction over add sequences, pigeonhole for the fallback, kernel evaluation of the regenerated std table) + correspondence + independent oracle", "6 C03"),
 "C15": (True,
  "Lean theorems over a model of ParseTypeRef / TypeRef.String / ParseRef / PkgImportPathAndExpose / rawNamer.processName (parse_print: every well-formed reference of any depth and width parses back to itself with the depth-counter scanner; splitRef_agree; rewrite_shape, rewrite_bound, rewrite_final_names: the namer's rewrite changes only package paths, registers exactly the foreign packages and every node carries the name any later extension of the table gives its package), tied to the code by a differential run against ParseTypeRef, ParseRef, PkgImportPathAndExpose and snippet.ID(string) rendered through a real writer (random trees, grammar enumeration, malformed strings for agreement only), with the tree the string was printed from as ground truth.",
  "Trusted: Lean kernel; references whose head has a package path (a TypeName always has a package) for the naming-system clause; the tracker's names themselves are C03's subject; the correspondence is a sample.",
  "Lean 4 proof (mutual structural induction over the nested reference tree) + correspondence + ground-truth oracle", "6 C15"),
 "C09": (True,
  "Lean theorems over a model of the template scanner, the Sprintf scanner, Comment/GoDirective and the snippet tree (scan_eq_subst: the repaired template scanner IS substitution into the tokens of the format — maximal names, one apostrophe consumed, argument text never tokenized; sprintf_spec likewise for %v/%T/%%; renderS_tmpl / renderS_sprintf / seq_spec lift both to snippet trees of any depth; lines_roundtrip / comment_lines for Comment), tied to the code by a differential run of the compiled model against snippet.T/Sprintf/Snippets/Comment/GoDirective rendered through a real SnippetWriter (random trees, exhaustive short formats) and judged by an independent Go re-statement of the property.",
  "Trusted: Lean kernel; text/scanner.Next modelled as 'next rune, invalid bytes become U+FFFD' (its leading-BOM skip is known finding F7, outside the theorems' domain); renderings of raw Go values under %v/%T are leaves supplied by the real dumper (C10/C11); the correspondence is a sample.",
  "Lean 4 proof (scanner = substitution, by induction) + model/implementation correspondence + independent oracle", "6 C09"),
 "C19": (True,
  "Lean theorems over a model of Split parametric in the three Unicode predicates (split_total_lossless: for every classification and every input the guarded splitter returns non-empty words whose concatenation is the input; splitBytes_total for byte strings that are not UTF-8; makeCase_total for every converter built on it), tied to the code by a differential run of the compiled model against camelcase.Split and the six converters (rune classes taken from Go's unicode tables) incl. an exhaustive enumeration of all short strings over an 8-symbol alphabet covering the four classes.",
  "Trusted: Lean kernel; the hand-written model's agreement with the code is sampled (and exhaustive only on the small alphabet); unicode.IsLower/IsUpper/IsDigit are arbitrary predicates in the theorems; strings.ToLower/ToUpper, cases.Title are parameters (total library functions).",
  "Lean 4 proof (induction over the rune list) + model/implementation correspondence", "6 C19"),
 "C20": (True,
  "Lean theorems over a model of the irregular-word step and of the memo cache (irregular_total: the repaired step never fails, for any fold relation and ToLower; irregular_prefix / irregular_spelled / irregular_entry: after any boundary-ending prefix a table word becomes prefix ++ its replacement, using the table facts plural_heads / singular_heads decided over the tables regenerated from rules.go; cache_refines: every call in every call sequence — every linearisation of concurrent callers — returns the pure function's value), tied to the code by a differential run of the compiled model composed with a re-statement of the ordered regexp rules read from the source, against Pluralize/Singularize on every irregular word × case × prefix menu and random variants; concurrent bursts on cold keys (with the race detector in the thorough tier).",
  "Trusted: Lean kernel; regexp semantics of the one irregular pattern shape (greedy prefix, ASCII \\b, (?i) folding incl. U+017F/U+212A) as modelled; sync.Map linearizable, sync.OnceValue exactly-once; the ~55 ordered regexp rules and the uninflected list are covered by correspondence only (regexp is total); schedules are sampled, not enumerated.",
  "Lean 4 proof (irregular step, cache refinement, table facts by decide over regenerated tables) + correspondence + race-detector sampling", "6 C20"),
}

ALL = ["C%02d" % i for i in range(1, 21)]

def main():
    checks, na = [], []
    for pid in ALL:
        built, text, note, tech, ref = P.get(pid, (False, "", "", "", ""))
        if not built:
            na.append({"property_id": pid, "reason": "check under construction in this commit (design in DESIGN.md section 6); not claimed yet"})
            continue
        checks.append({
            "property_id": pid,
            "quick_cmd": f"./check {pid} --tier quick",
            "thorough_cmd": f"./check {pid} --tier thorough",
            "evidence_file": f"/verif/evidence/{pid}.json",
            "replay_cmd_template": f"./check {pid} --replay {{path}}",
            "engine": "lean4-proof+correspondence",
            "level_claimed": {"category": "proof", "text": text, "design_ref": "DESIGN.md section " + ref},
            "level_note": note,
            "technique": tech,
        })
    m = {
        "version": 1,
        "setup_cmd": "./check --setup",
        "hooks": {
            "guard": "verif",
            "enable": "go build -tags verif (the harness module replaces github.com/octohelm/gengo with /repo)",
            "baseline_off_cmd": BASELINE,
            "source_commits": json.load(open(os.path.join(ROOT, "hooks.json")))["source_commits"] if os.path.exists(os.path.join(ROOT, "hooks.json")) else [],
            "add_only": True,
        },
        "engines": [{
            "name": "lean4-proof+correspondence",
            "path": "/verif/check",
            "serves_properties": [c["property_id"] for c in checks],
            "kind_free_text": "Lean 4 theorems over executable models (lean/Gengo), regenerated tables (tools/extract), compiled model driver vs. real code differential harness (harness/cmd/vh) with independent oracles",
        }],
        "checks": checks,
        "notes": "All checks: ./check <id> [--tier quick|thorough] [--replay FILE]; VERIF_SEED seeds every random choice. Known findings: known_findings.json.",
        "not_applicable": na,
    }
    json.dump(m, open(os.path.join(ROOT, "MANIFEST.json"), "w"), indent=1, ensure_ascii=False)
    print("MANIFEST.json:", len(checks), "checks,", len(na), "not claimed")

main()
