#!/usr/bin/env python3
"""Regenerates /verif/MANIFEST.json from the table below (kept next to the code so the manifest
stays valid while checks come online one by one)."""
import json, os

ROOT = os.path.dirname(os.path.dirname(os.path.abspath(__file__)))
BASELINE = json.load(open("/root/.vp/BASELINE.json"))["cmd"] if os.path.exists("/root/.vp/BASELINE.json") else ""

# id -> (built?, level text, level note, technique, design ref)
P = {
 "C03": (True,
  "Lean theorems over a model of the import tracker and the raw namer (adds_inv: after any sequence the two tables are inverse bijections, for any candidate function; add_stable; add_binds + add_valid + cfgF_ok: the repaired tracker — candidates filtered by token.IsIdentifier, numbered fallback, termination by a pigeonhole lemma — always binds a valid non-keyword identifier; imports_exact over the writer token model; std_reserved; kernel-evaluated facts about the std table regenerated from std.list), tied to the code by a differential run of the compiled model (camel-case model, candidate names, std table folded from the regenerated list) against NewRawNamer/NewDefaultImportTracker on path sequences and judged by an independent oracle (Go's token.IsIdentifier, uniqueness, the assembled file parsed with go/parser: imports = used qualifiers).",
  "Trusted: Lean kernel; ASCII import paths (module.CheckImportPath alphabet) in the model of toLocalName; strings.ToLower∘cases.Title on ASCII as ASCII lower-casing; reference kinds that go through the type printer (named, generic, literal) are oracle-only in this check (their model is C11's); the correspondence is a sample.",
  "Lean 4 proof (invariant by induction over add sequences, pigeonhole for the fallback, kernel evaluation of the regenerated std table) + correspondence + independent oracle", "6 C03"),
 "C12": (True,
  "Lean theorems over models of tag extraction and of the comment index (classify_once, tag_iff, splitKV_spec, others_spec for every line list and marker set; doc_correct / docOf_correct: for every layout of blank lines, comment groups and one- or multi-line declarations with or without trailing comments, every declaration gets exactly the tag extraction of the group ending directly above it and its own trailing comment, never the previous line's trailing comment — for the repaired index, via build_frame), tied to the code by ExtractCommentTags on random line lists vs. the model and an independent re-statement, and by rendering layouts to Go text (struct fields incl. multi-name, grouped/ungrouped type/const/var, line and block comments, detached groups, tag lines, go: prose), loading them with the real types.Load and comparing Doc/Comment of every declared name with the model and with the layout's own ground truth (random layouts plus the complete enumeration of ≤ 3 consecutive declarations × {none, doc, detached} × {trailing or not}).",
  "Trusted: Lean kernel; go/parser's attachment of Doc/Comment groups to declarations as the documented rule (a group ending on the line before a declaration is its Doc; a comment starting on a declaration's last line is its Comment; unattached groups are not visited by ast.Inspect); ast.CommentGroup.Text() as the source of lines (the harness uses payloads Text() returns unchanged); the `go:` filter of commentLinesFrom is part of the model (O11); default markers regenerated from the source.",
  "Lean 4 proof (frame lemma over the index, induction over the layout) + correspondence on the real loader + ground-truth oracle", "6 C12"),
 "C13": (True,
  "Lean theorems over models of the loader's table logic (tables_exact / tables_only_pkg: for every arrival order of types.Info.Defs the repaired table binds a name to exactly the package-scope object of that name, never a local declaration or a type parameter; methods_exact: grouping by the receiver's origin type makes MethodsOf(T, true) the declared methods and MethodsOf(T, false) those with value receivers, generic or not; register_ok: with dependencies registered first every import entry of every registered package is resolved, by induction on a height function over the acyclic import graph; sourceDir_correct, sourceDir_root, locate_correct, locate_none: path arithmetic of SourceDir and the order-free LocateInPackage), tied to the code by loading generated packages with the real types.Load and comparing the three tables, the import tables of random package DAGs listed in either root order, and MethodsOf on the complete enumeration of {plain, generic} × ≤ 3 methods × receiver kinds with the model; judged by the loader's own types.Package scope (pointer identity), Named.Method(i), packages' import lists and file directories — on the synthetic packages and on every package of the dependency closure of /repo (194 packages incl. std).",
  "Trusted: Lean kernel; go/types' Defs, scopes and method sets and go/packages' package graph are inputs of the model (an independent type-check of the same source feeds it); abstract methods of interface types are not judged under MethodsOf; init and blank-named functions are set aside as the statement says; the builtin package unsafe has no syntax and therefore empty tables (O10; claimed for packages that have source files); filepath.Clean stays with the oracle.",
  "Lean 4 proof (order-independence of last-writer-wins under a scope filter; induction over the import DAG) + correspondence on the real loader + scope oracle incl. /repo's closure", "6 C13"),
 "C15": (True,
  "Lean theorems over a model of ParseTypeRef / TypeRef.String / ParseRef / PkgImportPathAndExpose / rawNamer.processName (parse_print: every well-formed reference of any depth and width parses back to itself with the depth-counter scanner; splitRef_agree; rewrite_shape, rewrite_bound, rewrite_final_names: the namer's rewrite changes only package paths, registers exactly the foreign packages and every node carries the name any later extension of the table gives its package), tied to the code by a differential run against ParseTypeRef, ParseRef, PkgImportPathAndExpose and snippet.ID(string) rendered through a real writer (random trees, grammar enumeration, malformed strings for agreement only), with the tree the string was printed from as ground truth.",
  "Trusted: Lean kernel; references whose head has a package path (a TypeName always has a package) for the naming-system clause; the tracker's names themselves are C03's subject; the correspondence is a sample.",
  "Lean 4 proof (mutual structural induction over the nested reference tree) + correspondence + ground-truth oracle", "6 C15"),
 "C02": (True,
  "Lean theorems over an effect-trace model of Execute / pkgExecute / WriteToFile (execute_sum_last: a writeSum effect can only be the last effect of a run without error — so every strict prefix of any trace, i.e. every crash point, leaves gengo.sum untouched; goPkgs_fail: a failing run's trace is the complete traces of the packages before the failing one, what the failing package had done, nothing after and no sum; pkgExecute_gen_error: a generator or deferred-callback error touches no file of the package; writes_syntax_keeps: an unparseable rendering leaves that generator's file unwritten; runGen_err: the error carries generator and package), for any number of packages, generators and any failure index; tied to the code by fault enumeration on real modules: an error, a failing deferred callback, an unparseable rendering and an os.Exit injected at every GenerateType call of generated scenarios, the module tree hashed before and after, compared with the model's trace and judged by a Go re-statement of the property; two structural facts extracted from the source on every run (ParseFile precedes OpenFile in WriteToFile; the only Save call in pkg/gengo comes after the package loop of Execute).",
  "Trusted: Lean kernel; the filesystem as a map with atomic individual effects, process death as truncation of the effect trace between two effects (a death inside format.Node after O_TRUNC can leave a half-written generated file — not gengo.sum — and is not modelled); go/parser as the parseOk oracle; which other files are already written when one of several generators renders unparseable output depends on sync.Map's visiting order (any order allowed); the fault enumeration is exhaustive per base scenario, the base scenarios are a sample.",
  "Lean 4 proof (trace invariants by induction over packages and generators) + fault enumeration against the real code", "6 C02"),
 "C04": (True,
  "Lean theorems stating order independence of the whole run (execute_deterministic: presenting the local packages in any order and, inside every package, the name→type table in any order yields the same effects with the same payloads, the same sum bytes and the same result; handler_perm / merge3_perm: dispatch is independent of the iteration order of the three tag maps; sortBy_perm; importBlock_perm; sumData_perm; tables_exact for the repaired loader: the table itself does not depend on Defs order; content_stable / converges from the C08 history model for the fixed point), tied to the code by running every scenario three times in separate processes with permuted entrypoints and three consecutive runs each, all generated files, gengo.sum and the call order compared byte for byte, and with the model.",
  "Trusted: Lean kernel; Go's runtime explores only some map orders — the theorems cover all orders, the sample some (keys are inserted in descending order so that a dropped sort shows in every run); generators are deterministic functions of their inputs (a generator whose reaction depends on the iteration order of the tag map it is handed is itself non-deterministic); gofumpt/go/format determinism is exercised, not proved.",
  "Lean 4 proof (permutation invariance through sorted emission points) + repeated-process byte comparison", "6 C04"),
 "C05": (True,
  "Lean theorems over the pipeline model (pkg_independent: in a run without error the effects inside a processed package's directory are exactly pkgExecute p, an expression in which the rest of the universe does not occur — every (package, generator) pair starts from the prototype's fresh state, a fresh tracker and an empty buffer; alone_or_together; goPkgs_decomp), tied to the code by stateful recording generators (call counter and helper-once flag rendered into the output, reflect.New and custom New flavours) run on every scenario once as given and once per package alone, generated files compared byte for byte, and the rendered text compared with the model's fresh-state prediction.",
  "Trusted: Lean kernel; the theorem is easy because the model mirrors New-per-package — the assurance that the code does so comes from the correspondence (a hoisted New or a shared tracker shows as a byte difference and a model disagreement); scenarios are a sample.",
  "Lean 4 proof (decomposition of the run into per-package traces) + alone/together byte comparison on the real code", "6 C05"),
 "C06": (True,
  "Lean theorems over the tag and pipeline models (enabled_spec + enabled_perm: the early-return loop of IsGeneratorEnabled is the order-free rule of the statement, incl. names that are prefixes of one another; merge_precedence: declaration over package over global per key; dispatch_exact: the call log of (package, generator) is the sorted enabled defined types, each once, aliases to the alias hook only; defer_order: the file text is the fragments of the calls in call order followed by every registered callback exactly once in registration order; tables_only_pkg for the repaired loader: the table holds package-scope objects only), tied to the code by real NewContext/Execute on generated modules (defined scalar/struct/generic/interface types, aliases, function-local types and type parameters sharing names with package-level types, tags at three levels incl. repeated keys) with recording generators; call log in order, rendered text, files and sum compared with the model and judged by a Go re-statement of the statement.",
  "Trusted: Lean kernel; go/types decides what is a defined type, an alias, a local declaration (input of the model); callbacks registered from inside a deferred callback are outside the claim (observation O2); ErrIgnore from GenerateAliasType does not set the keep flag (O3, reported, not claimed); scenarios are a sample.",
  "Lean 4 proof (fold with early return = order-free rule; dispatch by induction over the sorted table) + correspondence on real Execute", "6 C06"),
 "C07": (True,
  "Lean theorems over the effect-trace model (pkgExecute_own / unselected_untouched: every effect of a package run — failing runs included — is on a <base>.* name inside that package's directory; lookalike_safe: a name with prefix base but not base+'.' is never a removal candidate; exists_iff_rendered / writes_spec: after a package run without error exactly one write per gathered non-empty text and one removal per stale <base>.* Go file no gathered entry names, ErrIgnore with nothing rendered keeps the file; goPkgs_fail_own; the sum effect only under All), tied to the code by hashing the whole module tree before and after real runs on generated modules with user files, look-alikes, stale and own old outputs, All on/off and every mix of render / nothing / ErrSkip / ErrIgnore, compared with the model's world and judged by the statement itself on the two snapshots.",
  "Trusted: Lean kernel; the loader's file list (which files of a directory are parsed Go files of the package) is an input of the model; the file-name format and the sum file name are regenerated from the source; scenarios are a sample.",
  "Lean 4 proof (trace invariants) + full-tree snapshot comparison on real Execute", "6 C07"),
 "C08": (True,
  "Lean theorems over models of the sum file, the skip decision and run histories (roundtrip: reading back what Save wrote gives the same lookup for every key, for key-distinct maps with clean keys and values, sorted one line per entry; skip_sound: in the repaired decision skip ⇒ ¬Force ∧ sum loaded ∧ entry exists ∧ equals the current hash; regen_on_*; execute_sum_last + goPkgs_decomp: after a successful All run the file is the sorted load-time hashes; skip_means_unchanged, content_stable, converges over the history model: the third run on unchanged inputs regenerates nothing and changes nothing), tied to the code by single-run scenarios with every previous-sum variant (none, corrupt, per package correct/stale/missing, unhashable directory) compared with the model, direct Save/Load round trips compared with the model, and random histories of edits, deletions, sum removal/corruption, failing, forced and subset runs on one persistent real module judged against the harness's own content ids of the directories.",
  "Trusted: Lean kernel; dirhash.Hash1 as an injective function of directory contents (SHA-256 collision freedom); the recorded sum is the hash before the run's own files are written (two runs are needed to converge; deleting a freshly generated file after the very first run returns the directory to the recorded state — observation O6, not claimed); histories are a sample.",
  "Lean 4 proof (refinement of the cache to 'contents at load time of the last successful All run') + correspondence + history oracle on real modules", "6 C08"),
 "C09": (True,
  "Lean theorems over a model of the template scanner, the Sprintf scanner, Comment/GoDirective and the snippet tree (scan_eq_subst: the repaired template scanner IS substitution into the tokens of the format — maximal names, one apostrophe consumed, argument text never tokenized; sprintf_spec likewise for %v/%T/%%; renderS_tmpl / renderS_sprintf / seq_spec lift both to snippet trees of any depth; lines_roundtrip / comment_lines for Comment), tied to the code by a differential run of the compiled model against snippet.T/Sprintf/Snippets/Comment/GoDirective rendered through a real SnippetWriter (random trees, exhaustive short formats) and judged by an independent Go re-statement of the property.",
  "Trusted: Lean kernel; text/scanner.Next modelled as 'next rune, invalid bytes become U+FFFD' (its leading-BOM skip is known finding F7, outside the theorems' domain); renderings of raw Go values under %v/%T are leaves supplied by the real dumper (C10/C11); the correspondence is a sample.",
  "Lean 4 proof (scanner = substitution, by induction) + model/implementation correspondence + independent oracle", "6 C09"),
 "C19": (True,
  "Lean theorems over a model of Split parametric in the three Unicode predicates (split_total_lossless: for every classification and every input the guarded splitter returns non-empty words whose concatenation is the input; splitBytes_total for byte strings that are not UTF-8; makeCase_total for every converter built on it), tied to the code by a differential run of the compiled model against camelcase.Split and the six converters (rune classes taken from Go's unicode tables) incl. an exhaustive enumeration of all short strings over an 8-symbol alphabet covering the four classes.",
  "Trusted: Lean kernel; the hand-written model's agreement with the code is sampled (and exhaustive only on the small alphabet); unicode.IsLower/IsUpper/IsDigit are arbitrary predicates in the theorems; strings.ToLower/ToUpper, cases.Title are parameters (total library functions).",
  "Lean 4 proof (induction over the rune list) + model/implementation correspondence", "6 C19"),
 "C20": (True,
  "Lean theorems over a model of the irregular-word step and of the memo cache (irregular_total: the repaired step never fails, for any fold relation and ToLower; irregular_prefix / irregular_spelled / irregular_entry: after any boundary-ending prefix a table word becomes prefix ++ its replacement, using the table facts plural_heads / singular_heads decided over the tables regenerated from rules.go; cache_refines: every call in every call sequence — every linearisation of concurrent callers — returns the pure function's value), tied to the code by a differential run of the compiled model composed with a re-statement of the ordered regexp rules read from the source, against Pluralize/Singularize on every irregular word × case × prefix menu and random variants; concurrent bursts on cold keys (with the race detector in the thorough tier).",
  "Trusted: Lean kernel; regexp semantics of the one irregular pattern shape (greedy prefix, ASCII \\b, (?i) folding incl. U+017F/U+212A) as modelled; sync.Map linearizable, sync.OnceValue exactly-once; the ~55 ordered regexp rules and the uninflected list are covered by correspondence only (regexp is total); schedules are sampled, not enumerated.",
  "Lean 4 proof (irregular step, cache refinement, table facts by decide over regenerated tables) + correspondence + race-detector sampling", "6 C20"),
}

ALL = ["C%02d" % i for i in range(1, 21)]

def main():
    checks, na = [], []
    for pid in ALL:
        built, text, note, tech, ref = P.get(pid, (False, "", "", "", ""))
        if not built:
            na.append({"property_id": pid, "reason": "check under construction in this commit (design in DESIGN.md section 6); not claimed yet"})
            continue
        checks.append({
            "property_id": pid,
            "quick_cmd": f"./check {pid} --tier quick",
            "thorough_cmd": f"./check {pid} --tier thorough",
            "evidence_file": f"/verif/evidence/{pid}.json",
            "replay_cmd_template": f"./check {pid} --replay {{path}}",
            "engine": "lean4-proof+correspondence",
            "level_claimed": {"category": "proof", "text": text, "design_ref": "DESIGN.md section " + ref},
            "level_note": note,
            "technique": tech,
        })
    m = {
        "version": 1,
        "setup_cmd": "./check --setup",
        "hooks": {
            "guard": "verif",
            "enable": "go build -tags verif (the harness module replaces github.com/octohelm/gengo with /repo)",
            "baseline_off_cmd": BASELINE,
            "source_commits": json.load(open(os.path.join(ROOT, "hooks.json")))["source_commits"] if os.path.exists(os.path.join(ROOT, "hooks.json")) else [],
            "add_only": True,
        },
        "engines": [{
            "name": "lean4-proof+correspondence",
            "path": "/verif/check",
            "serves_properties": [c["property_id"] for c in checks],
            "kind_free_text": "Lean 4 theorems over executable models (lean/Gengo), regenerated tables (tools/extract), compiled model driver vs. real code differential harness (harness/cmd/vh) with independent oracles",
        }],
        "checks": checks,
        "notes": "All checks: ./check <id> [--tier quick|thorough] [--replay FILE]; VERIF_SEED seeds every random choice. Known findings: known_findings.json.",
        "not_applicable": na,
    }
    json.dump(m, open(os.path.join(ROOT, "MANIFEST.json"), "w"), indent=1, ensure_ascii=False)
    print("MANIFEST.json:", len(checks), "checks,", len(na), "not claimed")

main()
