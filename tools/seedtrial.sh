#!/bin/bash
# tools/seedtrial.sh <id> <worktree-with-_seed> <property> : confirm a seeded change (applies, builds, suite passes,
# demo fails with it and passes without it) in a scratch worktree of /repo, keep it under /verif/seeded/<id>/
# and run the property's check against a checkout that carries the change.
set -u
ID=$1; SRC=$2; PROP=$3
export PATH=/root/go/pkg/mod/golang.org/toolchain@v0.0.1-go1.24.2.linux-amd64/bin:$PATH GOTOOLCHAIN=local GOFLAGS=-mod=mod GOPROXY=off GOSUMDB=off
V=/tmp/wtv/$ID
rm -rf $V; mkdir -p /tmp/wtv
git -C /repo worktree add -q --detach $V HEAD || exit 2
OUT=/verif/seeded/$ID; mkdir -p $OUT/demo
cp $SRC/_seed/patch.diff $OUT/patch.diff
cp -r $SRC/_seed/demo/. $OUT/demo/
cp $SRC/_seed/meta.json $OUT/agent_meta.json 2>/dev/null
R="{}"
log() { echo "[$ID] $*"; }
cd $V
# demo without the change
mkdir -p _seed && cp -r $OUT/demo _seed/demo
DEMOCMD="go test -vet=off -count=1 ./_seed/demo/"
if ls _seed/demo/*.go >/dev/null 2>&1 && ! ls _seed/demo/*_test.go >/dev/null 2>&1; then DEMOCMD="go run ./_seed/demo/"; fi
( $DEMOCMD ) > $OUT/demo_without.log 2>&1; W0=$?
git apply $OUT/patch.diff; AP=$?
go build ./... > $OUT/build.log 2>&1; B=$?
go test -vet=off -count=1 ./... > $OUT/suite.log 2>&1; T=$?
git checkout -q -- testdata 2>/dev/null; rm -f gengo.sum
( $DEMOCMD ) > $OUT/demo_with.log 2>&1; W1=$?
log "applies=$AP build=$B suite=$T demo_without_exit=$W0 demo_with_exit=$W1"
cd ${VROOT:-/verif}
CHK=$(VERIF_REPO=$V ./check $PROP 2>&1 | grep -v KNOWN-FINDING | tail -6)
echo "$CHK" > $OUT/check_quick.log
DET=$(echo "$CHK" | grep -c '^VIOLATION')
log "check $PROP: $DET violation lines"
python3 - "$ID" "$PROP" "$AP" "$B" "$T" "$W0" "$W1" "$DET" "$DEMOCMD" <<'PY'
import json,sys,os
id_,prop,ap,b,t,w0,w1,det,democmd=sys.argv[1:]
out='/verif/seeded/%s'%id_
am={}
try: am=json.load(open(out+'/agent_meta.json'))
except Exception: pass
meta={"id":id_,"property":prop,"breaks":am.get("what_breaks",""),"needs_to_manifest":am.get("needs_to_manifest",""),
 "confirmed":{"patch_applies_to_repo_head":ap=="0","go_build_ok":b=="0","existing_suite_passes":t=="0","demo_passes_without_change":w0=="0","demo_fails_with_change":w1!="0",
   "what_was_run":["git -C /repo worktree add --detach /tmp/wtv/%s HEAD"%id_, democmd+"   (before the patch)","git apply patch.diff","go build ./...","go test -vet=off -count=1 ./...",democmd+"   (with the patch)","VERIF_REPO=/tmp/wtv/%s ./check %s   (the check against a checkout carrying the change)"%(id_,prop)]},
 "detected_by":{"check":prop,"tier":"quick","violation_lines":int(det)},"files_changed":am.get("files_changed",[])}
json.dump(meta,open(out+'/meta.json','w'),indent=1,ensure_ascii=False)
os.path.exists(out+'/agent_meta.json') and os.remove(out+'/agent_meta.json')
PY
git -C /repo worktree remove --force $V
