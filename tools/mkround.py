#!/usr/bin/env python3
"""tools/mkround.py <letter> : prepare a round of seeded changes.

For every property creates a scratch worktree of /repo under /tmp/wt/<Cxx>-<letter> and writes the
prompt a fresh sub-agent is given to /tmp/wt/prompts/<Cxx>-<letter>.txt: the text of the property
(properties.jsonl, nothing from the checks), the rules for the change and its demonstration, and one
line per earlier kept change for that property (what it did, what it needed) so that the new one is
different.  Nothing of /verif's machinery goes into a prompt.
"""
import json, os, subprocess, sys, glob

letter = sys.argv[1]
only = sys.argv[2:]  # optional property ids
props = [json.loads(l) for l in open('/verif/properties.jsonl')]
os.makedirs('/tmp/wt/prompts', exist_ok=True)
GOENV = ('export PATH=/root/go/pkg/mod/golang.org/toolchain@v0.0.1-go1.24.2.linux-amd64/bin:$PATH '
         'GOTOOLCHAIN=local GOFLAGS=-mod=mod GOPROXY=off GOSUMDB=off')

def short(s, n):
    s = ' '.join(s.split())
    return s if len(s) <= n else s[:n].rsplit(' ', 1)[0] + ' …'

for p in props:
    pid = p['id']
    if only and pid not in only:
        continue
    wt = '/tmp/wt/%s-%s' % (pid, letter)
    if not os.path.isdir(wt):
        subprocess.check_call(['git', '-C', '/repo', 'worktree', 'add', '-q', '--detach', wt, 'HEAD'])
    earlier = []
    for d in sorted(glob.glob('/verif/seeded/%s-*' % pid)):
        try:
            m = json.load(open(d + '/meta.json'))
        except Exception:
            continue
        earlier.append('- (%s) %s NEEDED: %s' % (', '.join(m.get('files_changed', []) or ['?']),
                                                  short(m.get('breaks', ''), 420), short(m.get('needs_to_manifest', ''), 300)))
    prop_text = json.dumps({k: p[k] for k in ('id', 'title', 'statement', 'quantifier', 'why_tests_cant', 'anchors')},
                           indent=1, ensure_ascii=False)
    prompt = f"""You are helping to evaluate how well a verification effort for the Go library octohelm/gengo detects
regressions. Your job: write ONE realistic change to the library that BREAKS the semantic property quoted below,
while the library still compiles and its existing test suite still passes, and write a small demonstration that
passes without your change and fails with it.

Your private scratch checkout of the repository (a git worktree; work ONLY inside it, never touch /repo or /verif,
do not use `git stash`, do not commit): {wt}

Go environment (no network; run this first in every shell command):
  {GOENV}
Existing suite: `cd {wt} && go build ./... && go test -vet=off -count=1 ./...` (it may rewrite files under
testdata/ and gengo.sum; `git checkout -- testdata; rm -f gengo.sum` restores them — do that before making the patch).

THE PROPERTY (this is all you are told about what must hold):
{prop_text}

Rules for the change
 (a) it compiles (`go build ./...`) and the whole existing suite passes with it;
 (b) it breaks the property as stated — some clause of the statement is false for some input/history within the
     quantifier — and it looks like something a maintainer could plausibly write (an optimisation, a refactor, a
     cache, a "simplification", an off-by-one, a moved statement), not sabotage with a magic constant;
 (c) the breakage needs something specific to manifest — an unusual input, a multi-step sequence of operations, a
     particular interleaving, a crash or fault at a particular point, a configuration nobody varies, or two
     cooperating sites that each look fine alone. Ordinary use (one package, one run, plain ASCII names, the
     shipped examples) must behave exactly as before. Prefer a trigger that a random-input differential test of
     the obvious entry points would be unlikely to hit;
 (d) it is DIFFERENT from these earlier changes for the same property (a different clause, code site or trigger;
     the people checking have already strengthened their checks against all of these):
{chr(10).join(earlier) if earlier else '   (none)'}

Deliverables, all under {wt}/_seed/ :
  _seed/patch.diff   `git diff` of your change to the library only (made from the worktree root, applies with
                     `git apply` to a clean checkout of the same commit; must not include _seed/ or testdata churn)
  _seed/demo/        a Go test package (`package demo_test`, files *_test.go, run as
                     `go test -vet=off -count=1 ./_seed/demo/` from the worktree root) — or a `main` program run as
                     `go run ./_seed/demo/` that exits non-zero on violation — that PASSES on the unchanged tree and
                     FAILS with the patch, using only the library's public API / exported packages, synthetic
                     modules written to a temp directory, and the standard library; plus a short README.md
  _seed/meta.json    {{"property": "{pid}", "what_breaks": "...which clause, how...", "needs_to_manifest": "...",
                      "files_changed": ["..."]}}
Before you finish: verify yourself that (1) with the patch reverted the demo passes, (2) with the patch applied
`go build ./...` and the full suite pass and the demo fails, and leave the worktree WITH the patch applied and
testdata/gengo.sum restored. Your final message: at most 12 lines — what the change does, what it needs to manifest,
and the verification commands you ran with their outcomes."""
    open('/tmp/wt/prompts/%s-%s.txt' % (pid, letter), 'w').write(prompt)
    print(pid, wt, len(prompt))
