#!/bin/bash
# tools/applyseed.sh <seed-id> <property> [tier]: apply a kept seeded change to /repo itself, run the property's check, undo.
# Prints the last lines of the check and records them in seeded/<id>/check_on_repo.log
ID=$1; PROP=$2; TIER=${3:-quick}
cd /verif
git -C /repo status --short | grep -q . && { echo "[$ID] /repo is not clean"; exit 2; }
git -C /repo apply /verif/seeded/$ID/patch.diff || { echo "[$ID] patch does not apply"; exit 2; }
./check $PROP --tier $TIER > /tmp/applyseed.$$.log 2>&1; RC=$?
git -C /repo checkout -- . ; git -C /repo clean -fdq
grep -v KNOWN-FINDING /tmp/applyseed.$$.log | tail -6 > seeded/$ID/check_on_repo_$PROP.log
echo "[$ID] $PROP exit=$RC $(grep -c '^VIOLATION' /tmp/applyseed.$$.log) violation lines: $(grep '^VIOLATION' /tmp/applyseed.$$.log | head -2 | tr '\n' ' ')"
rm -f /tmp/applyseed.$$.log
